"""C20 — a merged processing element, configured as decoded, computes each kernel.

One case = a merge history: 1..5 kernel bodies (lists of arith ops over the block arguments), merged in
the given order with the real `convert_generic_body_to_phs` / `append_to_abstract_graph`; after every
merge every kernel of the history is decoded with the real `decode_abstract_graph`.

impl    : canonical JSON of every encoded kernel, of the merged graph after every step (choose ops in
          block order, muxes as trees, wiring of the operation inside every choose region, switch users),
          the decoded switch lists, `get_true_switches`, the expanded switch list and the symbolic value
          of the merged element under it (PE interpreter below, on the real xDSL graph).
model   : the same object computed by the Lean model (Model/Phs.lean: encode, combine, decode, expand,
          evalF over free terms) from the kernel bodies alone.
oracle  : the property on the real objects, independent of the model: every merged kernel decodes at every
          later step, #values == get_true_switches() == number of phs_switch fields of SNAXPHSAccelerator,
          and the merged graph interpreted under the decoded switches equals the kernel body evaluated
          directly (symbolically; if the terms differ, on all small and random i32 / rational inputs).
"""
import itertools
import random
from fractions import Fraction

import compat  # noqa: F401
from framework import Prop

I32 = ["IntegerType", "i32"]
F32 = ["Float32Type", "f32"]
I64 = ["IntegerType", "i64"]
INT_OPS = ["arith.addi", "arith.subi", "arith.muli", "arith.andi", "arith.ori", "arith.xori"]
FLT_OPS = ["arith.addf", "arith.subf", "arith.mulf", "arith.maximumf", "arith.minimumf"]
M32 = 0xFFFFFFFF


def _s32(x):
    x &= M32
    return x - (1 << 32) if x >> 31 else x


SEM = {
    "arith.addi": lambda a, b: (a + b) & M32, "arith.subi": lambda a, b: (a - b) & M32,
    "arith.muli": lambda a, b: (a * b) & M32, "arith.andi": lambda a, b: a & b,
    "arith.ori": lambda a, b: a | b, "arith.xori": lambda a, b: a ^ b,
    "arith.addf": lambda a, b: a + b, "arith.subf": lambda a, b: a - b, "arith.mulf": lambda a, b: a * b,
    "arith.maximumf": lambda a, b: max(a, b), "arith.minimumf": lambda a, b: min(a, b),
    "arith.divf": lambda a, b: a / b if b != 0 else Fraction(10 ** 9) + a,  # total stand-in, used consistently
}


def _mlir_ty(t):
    from xdsl.dialects.builtin import Float32Type, IndexType, IntegerType
    return {"i32": IntegerType(32), "i64": IntegerType(64), "f32": Float32Type(), "index": IndexType(),
            "i1": IntegerType(1)}[t[1]]


# operations with attributes: an op key is the name, or [name, attribute text]
I1 = ["IntegerType", "i1"]
CMPI_PREDS = ["eq", "ne", "slt", "sle", "sgt", "sge", "ult", "ule", "ugt", "uge"]


def op_name(key):
    return key if isinstance(key, str) else key[0]


def op_attr(key):
    return "" if isinstance(key, str) else key[1]


def build_op(key, operands):
    """a real arith op for an op key"""
    from xdsl.dialects import arith
    from xdsl.dialects.builtin import IntegerAttr, IntegerType
    name = op_name(key)
    if name == "arith.cmpi":
        return arith.CmpiOp(operands[0], operands[1], op_attr(key))
    if name == "arith.constant":
        return arith.ConstantOp(IntegerAttr(int(op_attr(key)), IntegerType(32)))
    if name == "arith.select":
        return arith.SelectOp(*operands)
    if name == "arith.negf":
        return arith.NegfOp(operands[0])
    return _op_cls(name)(*operands)


def op_key(op):
    """op key of a real operation (what the model calls OpCode)"""
    from xdsl.dialects import arith
    if isinstance(op, arith.CmpiOp):
        return [op.name, CMPI_PREDS[op.predicate.value.data]]
    if isinstance(op, arith.ConstantOp):
        return [op.name, str(op.value.value.data)]
    return op.name


def _cmpi(pred, a, b):
    sa, sb = _s32(a), _s32(b)
    return int({"eq": a == b, "ne": a != b, "slt": sa < sb, "sle": sa <= sb, "sgt": sa > sb, "sge": sa >= sb,
                "ult": a < b, "ule": a <= b, "ugt": a > b, "uge": a >= b}[pred])


def _op_cls(name):
    from xdsl.dialects import arith
    return {"arith.addi": arith.AddiOp, "arith.subi": arith.SubiOp, "arith.muli": arith.MuliOp,
            "arith.andi": arith.AndIOp, "arith.ori": arith.OrIOp, "arith.xori": arith.XOrIOp,
            "arith.addf": arith.AddfOp, "arith.subf": arith.SubfOp, "arith.mulf": arith.MulfOp,
            "arith.maximumf": arith.MaximumfOp, "arith.minimumf": arith.MinimumfOp, "arith.divf": arith.DivfOp}[name]


# ------------------------------------------------------------------------------------------------
# building the real objects
def build_generic(body):
    """a real linalg.generic whose region is the kernel body (inputs = all block args but the last)"""
    from xdsl.dialects import builtin, linalg, test
    from xdsl.dialects.builtin import AffineMapAttr, MemRefType
    from xdsl.ir import Block, Region
    from xdsl.ir.affine import AffineMap
    tys = [_mlir_ty(t) for t in body["arg_tys"]]
    blk = Block(arg_types=tys)
    res = []

    def get(s):
        return blk.args[s[1]] if s[0] == "a" else res[s[1]]

    for name, rty, srcs in body["ops"]:
        op = build_op(name, [get(s) for s in srcs])
        assert [op.results[0].type] == [_mlir_ty(rty)], "generator bug: result type"
        blk.add_op(op)
        res.append(op.results[0])
    blk.add_op(linalg.YieldOp(get(body["yield"])))
    bufs = test.TestOp(result_types=[MemRefType(t, [8]) for t in tys])
    ident = AffineMapAttr(AffineMap.identity(1))
    gen = linalg.GenericOp(list(bufs.results[:-1]), [bufs.results[-1]], Region(blk), [ident] * len(tys),
                           [linalg.IteratorTypeAttr.parallel()])
    mod = builtin.ModuleOp([bufs, gen])
    return mod, gen


def run_encode_pass(bodies, accs):
    """ONE module with all the linalg.generic ops (generic i tagged phs_acc = @accs[i]), the real `phs-encode`
    pass run on it; returns {acc name: the phs.pe the pass left in the module}"""
    from snaxc.dialects import phs
    from snaxc.transforms.phs.encode import PhsEncodePass
    from xdsl.context import Context
    from xdsl.dialects import builtin
    from xdsl.dialects.builtin import SymbolRefAttr
    ops = []
    for b, a in zip(bodies, accs):
        mod, gen = build_generic(b)
        for o in list(mod.body.block.ops):
            o.detach()
            ops.append(o)
        if a is not None:  # an untagged generic is none of the pass's business
            gen.attributes["phs_acc"] = SymbolRefAttr(a)
    module = builtin.ModuleOp(ops)
    PhsEncodePass().apply(Context(), module)
    module.verify()
    return {o.name_prop.data: o for o in module.body.block.ops if isinstance(o, phs.PEOp)}, module


def real_encode(body, name="acc"):
    from snaxc.phs.encode import convert_generic_body_to_phs
    from xdsl.pattern_rewriter import PatternRewriter
    mod, gen = build_generic(body)
    pe = convert_generic_body_to_phs(gen, name, PatternRewriter(gen))
    return pe, (mod, gen)


# ------------------------------------------------------------------------------------------------
# graphs given directly (hand-built with the dialect's constructors), e.g. the inputs of the upstream tests
def real_pe_from_json(j, name="myfirstaccelerator"):
    """a real phs.pe built with ChooseOp.from_operations / MuxOp / PEOp from canonical JSON"""
    from snaxc.dialects import phs
    from xdsl.dialects.builtin import FunctionType, IndexType
    from xdsl.ir import Block, Region
    nd, nsw = len(j["arg_tys"]), len(j["switches"])
    blk = Block(arg_types=[_mlir_ty(t) for t in j["arg_tys"]] + [IndexType()] * nsw)
    nodes, ops, keep = [], [], []

    def val(s):
        if s[0] == "a":
            return blk.args[s[1]]
        if s[0] == "n":
            return nodes[s[1]].results[0]
        mux = phs.MuxOp(val(s[2]), val(s[3]), blk.args[nd + s[1]])
        ops.append(mux)
        return mux.results[0]

    for n in j["nodes"]:
        opnds = [val(x) for x in n["operands"]]
        tmp = Block(arg_types=[v.type for v in opnds])  # raw operations over values of their own
        keep.append(tmp)
        raw = [_op_cls(nm)(*tmp.args) for nm, _ in n["ops"]]
        tmp.add_ops(raw)
        ch = phs.ChooseOp.from_operations(n["id"], opnds, blk.args[nd + n["sw"]], raw, [_mlir_ty(n["res_ty"])])
        ops.append(ch)
        nodes.append(ch)
    y = val(j["yield"])
    ops.append(phs.YieldOp(y))
    blk.add_ops(ops)
    pe = phs.PEOp(name, FunctionType.from_lists(list(blk.arg_types), [y.type]), nsw, Region(blk))
    return pe, keep


def upstream_graphs():
    """the six processing elements of /repo/tests/dialects/phs/create_input.py, built by the upstream code"""
    import importlib.util
    import os
    p = os.path.join(compat.REPO, "tests/dialects/phs/create_input.py")
    spec = importlib.util.spec_from_file_location("c20_upstream_create_input", p)
    m = importlib.util.module_from_spec(spec)
    spec.loader.exec_module(m)
    return list(m.create_test_input())


def recorded_upstream():
    import json
    import os
    return json.load(open(os.path.join(os.path.dirname(os.path.abspath(__file__)), "c20_upstream.json")))


def gen_graphs_case(rng, source):
    gs = recorded_upstream()
    idx = list(range(len(gs)))
    base = rng.choice(idx)
    rest = [i for i in idx if i != base]
    rng.shuffle(rest)
    plan = [base] + rest[:rng.choice([0, 1, 2, 2, 3, 3, 4])]
    return {"kind": "graphs", "source": source, "graphs": gs, "plan": plan}


def case_groups(case):
    """merge plan: list of groups of body indices; a group of several kernels is merged into a graph of its
    own first and that graph is then appended as a whole. Default: one kernel per step."""
    return case.get("groups") or [[i] for i in range(len(case["bodies"]))]


def real_group_graph(bodies, grp, keep):
    """fresh real objects: encode the first body of the group, append the others"""
    from snaxc.phs.combine import append_to_abstract_graph
    if not grp:
        raise ValueError("empty group")
    g, owner = real_encode(bodies[grp[0]])
    keep.append(owner)
    for i in grp[1:]:
        k, owner = real_encode(bodies[i])
        keep.append(owner)
        append_to_abstract_graph(k, g)
    return g


class Unrepresentable(Exception):
    pass


def ty_json(t):
    return [type(t).__name__, str(t)]


def pe_json(pe):
    """canonical JSON of a phs.pe (same shape as Drv/C20.lean peJ) + ssa_ok / unique_ids"""
    from snaxc.dialects import phs
    from xdsl.ir import BlockArgument, OpResult
    blk = pe.body.block
    args = list(blk.args)
    nsw = pe.switch_no.value.data
    nd = len(args) - nsw
    if nd < 0:
        raise Unrepresentable("more switches than block arguments")
    ops = list(blk.ops)
    if not ops or not isinstance(ops[-1], phs.YieldOp):
        raise Unrepresentable("no terminator")
    chooses = [o for o in ops if isinstance(o, phs.ChooseOp)]
    cidx = {id(o): i for i, o in enumerate(chooses)}
    for o in ops[:-1]:
        if not isinstance(o, (phs.ChooseOp, phs.MuxOp)):
            raise Unrepresentable(f"unexpected op {o.name}")

    def sw_index(v):
        if not isinstance(v, BlockArgument) or v.owner is not blk or v.index < nd:
            raise Unrepresentable("switch operand is not a switch block argument")
        return v.index - nd

    def src(v):
        if isinstance(v, BlockArgument):
            if v.owner is not blk:
                raise Unrepresentable("foreign block argument")
            return ["a", v.index]
        assert isinstance(v, OpResult)
        o = v.owner
        if isinstance(o, phs.ChooseOp) and id(o) in cidx:
            return ["n", cidx[id(o)]]
        if isinstance(o, phs.MuxOp) and o.parent is blk:
            if v.uses.get_length() != 1:
                raise Unrepresentable("mux result with several uses")
            return ["m", sw_index(o.switch), src(o.lhs), src(o.rhs)]
        raise Unrepresentable("operand defined outside the pe")

    nodes = []
    for c in chooses:
        regs = []
        for r in c.regions:
            rops = list(r.block.ops)
            if len(rops) != 2 or not isinstance(rops[1], phs.YieldOp) or list(rops[1].operands) != list(rops[0].results):
                raise Unrepresentable("choose region is not [op, yield op]")
            inner = rops[0]
            wiring = []
            for x in inner.operands:
                wiring.append(x.index if isinstance(x, BlockArgument) and x.owner is r.block else -1)
            if len(r.block.args) != len(c.data_operands):
                wiring.append(-2)
            regs.append([op_key(inner), wiring])
        nodes.append({"id": c.name_prop.data, "ops": regs, "operands": [src(v) for v in c.data_operands],
                      "sw": sw_index(c.switch), "res_ty": ty_json(c.results[0].type)})
    switches = []
    for a in args[nd:]:
        if a.uses.get_length() != 1:
            raise Unrepresentable("switch without a unique use")
        u = a.get_user_of_unique_use()
        if isinstance(u, phs.ChooseOp) and u.switch is a:
            switches.append(["c", cidx[id(u)]])
        elif isinstance(u, phs.MuxOp) and u.switch is a:
            switches.append(["m"])
        else:
            raise Unrepresentable("switch used as data")
    # dominance inside the block
    seen = set()
    ssa_ok = True
    for o in ops:
        for v in o.operands:
            if isinstance(v, OpResult) and id(v.owner) not in seen:
                ssa_ok = False
        seen.add(id(o))
    ids = [n["id"] for n in nodes]
    j = {"arg_tys": [ty_json(a.type) for a in args[:nd]], "nodes": nodes, "yield": src(ops[-1].operands[0]),
         "switches": switches}
    return j, ssa_ok, len(set(ids)) == len(ids)


class Invalid(Exception):
    pass


def eval_pe(pe, data, switches, sem):
    """PE interpreter on the real xDSL graph: dataflow evaluation of the yielded value under a switch
    assignment. `sem(opname, [values])`. Raises Invalid when the configuration selects nothing sensible."""
    from snaxc.dialects import phs
    from xdsl.ir import BlockArgument
    blk = pe.body.block
    nsw = pe.switch_no.value.data
    nd = len(blk.args) - nsw
    busy = set()
    memo = {}

    def swv(v):
        if not isinstance(v, BlockArgument) or v.owner is not blk or v.index < nd:
            raise Invalid("switch operand is not a switch")
        return switches[v.index - nd]

    def val(v):
        if isinstance(v, BlockArgument):
            if v.owner is not blk or v.index >= nd:
                raise Invalid("switch read as data")
            if v.index >= len(data):
                raise Invalid("missing input")
            return data[v.index]
        k = id(v)
        if k in memo:
            return memo[k]
        if k in busy:
            raise Invalid("combinational cycle")
        busy.add(k)
        o = v.owner
        if isinstance(o, phs.MuxOp):
            r = val(o.rhs) if swv(o.switch) == 1 else val(o.lhs)
        elif isinstance(o, phs.ChooseOp):
            s = swv(o.switch)
            if not 0 <= s < len(o.regions):
                raise Invalid("switch selects no region")
            rb = o.regions[s].block
            inner = rb.first_op
            opnds = list(o.data_operands)
            vs = []
            for x in inner.operands:
                if not (isinstance(x, BlockArgument) and x.owner is rb):
                    raise Invalid("region operation reads something else than its block arguments")
                vs.append(val(opnds[x.index]))
            r = sem(op_key(inner), vs)
        else:
            raise Invalid(f"unexpected op {o.name}")
        busy.discard(k)
        memo[k] = r
        return r

    return val(list(blk.ops)[-1].operands[0])


def sym_sem(name, vs):
    return [name, vs]


def full_switches(pe, decoded):
    """hardware view of the decoded values: one-operation choose ops have no switch (value 0 here)"""
    from snaxc.dialects import phs
    vals = list(decoded)
    out = []
    for sw in pe.get_switches():
        u = sw.get_user_of_unique_use()
        if isinstance(u, phs.ChooseOp) and len(list(u.operations())) == 1:
            out.append(0)
        else:
            out.append(vals.pop(0) if vals else 0)
    return out


# ------------------------------------------------------------------------------------------------
# reference semantics of a kernel body (independent of encode)
def used_args(body):
    u = set()
    for _, _, srcs in body["ops"]:
        for s in srcs:
            if s[0] == "a":
                u.add(s[1])
    if body["yield"][0] == "a":
        u.add(body["yield"][1])
    return sorted(u)


def signature(body):
    return [body["arg_tys"][i] for i in used_args(body)]


def eval_body(body, data, sem):
    """data = values of the USED block arguments, in order (the data ports of the processing element)"""
    ua = used_args(body)
    env = {a: data[k] for k, a in enumerate(ua)}
    res = []
    for name, _, srcs in body["ops"]:
        res.append(sem(name, [env[s[1]] if s[0] == "a" else res[s[1]] for s in srcs]))
    y = body["yield"]
    return env[y[1]] if y[0] == "a" else res[y[1]]


def sym_inputs(n):
    return [["i", k] for k in range(n)]


def concrete_inputs(sig, rnd):
    small_i = [0, 1, 2, M32]
    small_f = [Fraction(0), Fraction(1), Fraction(-2), Fraction(1, 2)]
    doms = [small_i if t[0] == "IntegerType" else small_f for t in sig]
    pts = [list(p) for p in itertools.product(*doms)]
    for _ in range(24):
        pts.append([rnd.getrandbits(32) if t[0] == "IntegerType" else Fraction(rnd.randint(-50, 50), rnd.randint(1, 9))
                    for t in sig])
    return pts


def conc_sem(key, vs):
    name = op_name(key)
    if name == "arith.cmpi":
        return _cmpi(op_attr(key), vs[0], vs[1])
    if name == "arith.constant":
        return int(op_attr(key)) & M32
    if name == "arith.select":
        return vs[1] if vs[0] else vs[2]
    if name == "arith.negf":
        return -vs[0]
    return SEM[name](*vs)


# ------------------------------------------------------------------------------------------------
# generator
def body_ids(body):
    """ids `get_id` will assign (generator-side bookkeeping only, to bound the number of muxes)"""
    cnt = {}
    ids = []
    for name, rty, srcs in body["ops"]:
        tys = [body["arg_tys"][s[1]][1] if s[0] == "a" else body["ops"][s[1]][1][1] for s in srcs]
        key = "i_" + "".join(t + "_" for t in tys) + "o_" + rty[1] + "_"
        cnt[key] = cnt.get(key, -1) + 1
        ids.append(key + str(cnt[key]))
    return ids


def mux_estimate(bodies):
    slots = {}
    for b in bodies:
        ids = body_ids(b)
        ua = used_args(b)

        def leaf(s):
            return ("a", ua.index(s[1])) if s[0] == "a" else ("n", ids[s[1]])

        for j, (_, _, srcs) in enumerate(b["ops"]):
            for k, s in enumerate(srcs):
                slots.setdefault((ids[j], k), set()).add(leaf(s))
        slots.setdefault("yield", set()).add(leaf(b["yield"]))
    return sum(len(v) - 1 for v in slots.values())


def gen_body(rng, arg_tys, nops, force_all=True, base=None):
    """arg_tys includes the trailing (unused) output argument"""
    nd = len(arg_tys) - 1
    for _ in range(50):
        ops = []
        if base is not None and rng.random() < 0.6:
            ops = [[o[0], o[1], [list(s) for s in o[2]]] for o in base["ops"][:rng.randint(1, len(base["ops"]))]]
            # perturb one operand or one operation name
            j = rng.randrange(len(ops))
            if rng.random() < 0.5:
                tbl = INT_OPS if ops[j][1] == I32 else FLT_OPS
                ops[j][0] = rng.choice(tbl)
            else:
                ty = ops[j][1]
                srcs = [["a", i] for i in range(nd) if arg_tys[i] == ty] + [["r", k] for k in range(j) if ops[k][1] == ty]
                ops[j][2][rng.randrange(2)] = rng.choice(srcs)
        while len(ops) < nops:
            j = len(ops)
            tys = [t for t in (I32, F32) if any(arg_tys[i] == t for i in range(nd))]
            ty = rng.choice(tys)
            srcs = [["a", i] for i in range(nd) if arg_tys[i] == ty] + [["r", k] for k in range(j) if ops[k][1] == ty]
            a = rng.choice(srcs)
            b = a if rng.random() < 0.2 else rng.choice(srcs)
            if j > 0 and rng.random() < 0.5 and ops[j - 1][1] == ty:
                if rng.random() < 0.5:
                    a = ["r", j - 1]
                else:
                    b = ["r", j - 1]
            ops.append([rng.choice(INT_OPS if ty == I32 else FLT_OPS), ty, [a, b]])
        ops = ops[:max(nops, 1)] if len(ops) > nops else ops
        # references must stay inside the (possibly truncated) body
        if any(s[0] == "r" and s[1] >= j for j, o in enumerate(ops) for s in o[2]):
            continue
        y = ["r", len(ops) - 1] if rng.random() < 0.85 else ["r", rng.randrange(len(ops))]
        body = {"arg_tys": arg_tys, "ops": ops, "yield": y}
        if not force_all or used_args(body) == list(range(nd)):
            return body
    # fall back: a chain that uses every argument of the first type present, others via extra ops
    ops = []
    for i in range(nd):
        ty = arg_tys[i]
        prev = [k for k in range(len(ops)) if ops[k][1] == ty]
        other = ["r", prev[-1]] if prev else ["a", i]
        ops.append([rng.choice(INT_OPS if ty == I32 else FLT_OPS), ty, [["a", i], other]])
    return {"arg_tys": arg_tys, "ops": ops, "yield": ["r", len(ops) - 1]}


def gen_history(rng, tier, maxmux):
    r = rng.random()
    nd = rng.choice([2, 2, 3])
    if r < 0.55:
        tys = [I32] * nd
    elif r < 0.75:
        tys = [F32] * nd
    else:
        tys = [rng.choice([I32, F32]) for _ in range(nd)]
    arg_tys = tys + [tys[-1] if rng.random() < 0.7 else rng.choice([I32, F32])]
    n = rng.choice([1, 2, 2, 3, 3, 3, 4, 4, 5, 5])
    maxops = 3 if tier == "quick" else 4
    for _ in range(30):
        bodies = []
        for k in range(n):
            base = rng.choice(bodies) if bodies and rng.random() < 0.5 else None
            bodies.append(gen_body(rng, arg_tys, rng.randint(1, maxops), True, base))
        if mux_estimate(bodies) <= maxmux:
            return bodies
        n = max(1, n - 1)
    return bodies[:1]


def rename_ops(rng, body):
    """same routing, other operation names: merging such kernels inserts no mux"""
    ops = [[rng.choice(INT_OPS if o[1] == I32 else FLT_OPS), o[1], [list(x) for x in o[2]]] for o in body["ops"]]
    return {"arg_tys": body["arg_tys"], "ops": ops, "yield": list(body["yield"])}


def gen_large(rng, lo=10, hi=14):
    """LARGE merged elements: 3..5 kernels of 3 operations over two or three i32/f32 ports whose operand routing
    deliberately differs from the earlier kernels in most operand slots, so that the element reaches `lo`..`hi`
    muxes. Every earlier kernel is re-decoded after every merge (the real search tries the oldest mux as most
    significant bit, zeros first: an early kernel that needs the first muxes set to 1 sits behind >= 2^(m-1)
    candidates). Only merged kernels are decoded (`merged_only`)."""
    for _ in range(200):
        ty = rng.choice([I32, I32, F32])
        nd = rng.choice([2, 2, 3])
        arg_tys = [ty] * (nd + 1)
        tbl = INT_OPS if ty == I32 else FLT_OPS
        nk = rng.choice([3, 4, 4, 5])
        nops = 3
        seen = {}  # slot -> sources used so far
        bodies = []
        for _k in range(nk):
            for _try in range(40):
                ops = []
                for j in range(nops):
                    srcs = [["a", i] for i in range(nd)] + [["r", q] for q in range(j)]
                    opnds = []
                    for slot in range(2):
                        used = seen.get((j, slot), [])
                        fresh = [x for x in srcs if x not in used]
                        opnds.append(rng.choice(fresh) if fresh and rng.random() < 0.8 else rng.choice(srcs))
                    ops.append([rng.choice(tbl), ty, opnds])
                ysrcs = [["r", q] for q in range(nops)]
                yfresh = [x for x in ysrcs if x not in seen.get("y", [])]
                y = rng.choice(yfresh) if yfresh and rng.random() < 0.5 else ["r", nops - 1]
                body = {"arg_tys": arg_tys, "ops": ops, "yield": y}
                if used_args(body) == list(range(nd)):
                    break
            else:
                continue
            for j, o in enumerate(body["ops"]):
                for slot in range(2):
                    seen.setdefault((j, slot), []).append(o[2][slot])
            seen.setdefault("y", []).append(body["yield"])
            bodies.append(body)
            if mux_estimate(bodies) > hi:
                bodies.pop()
                break
        if len(bodies) >= 3 and lo <= mux_estimate(bodies) <= hi:
            return {"kind": "large", "bodies": bodies, "merged_only": True}
    return {"kind": "large", "bodies": bodies[:3] if len(bodies) >= 1 else [gen_body(rng, [I32, I32, I32], 3)],
            "merged_only": True}


def gen_grouped(rng, tier, maxmux):
    """merge plan with groups: some groups are merged into a graph of their own first (multi-operation choose
    ops, `ChooseOp.from_operations` with several operations); groups whose own graph needs a mux are rejected by
    `append_to_abstract_graph` (NotImplementedError), which both sides must agree on"""
    for _ in range(30):
        bodies = gen_history(rng, tier, maxmux)
        groups = []
        out = []
        for b in bodies:
            r = rng.random()
            if r < 0.55:
                k = rng.choice([2, 2, 3])
                grp = [b] + [rename_ops(rng, b) for _ in range(k - 1)]
                if rng.random() < 0.25:  # one member with another routing: the group graph gets a mux
                    grp[-1] = gen_body(rng, b["arg_tys"], len(b["ops"]), True, b)
            else:
                grp = [b]
            groups.append(list(range(len(out), len(out) + len(grp))))
            out.extend(grp)
        if len(out) <= 7 and mux_estimate(out) <= maxmux and any(len(g) > 1 for g in groups):
            order = list(range(len(groups)))
            rng.shuffle(order)
            return out, [groups[i] for i in order]
    return bodies, [[i] for i in range(len(bodies))]


def gen_from_ops(rng):
    """raw operations (operands may repeat) handed to PEOp.from_operations"""
    ty = rng.choice([I32, I32, F32])
    nargs = rng.choice([1, 2, 3])
    arg_tys = [ty] * nargs
    n = rng.choice([1, 2, 2, 3, 3, 4]) if rng.random() < 0.95 else 0
    ops = []
    for k in range(n):
        t = ty
        if rng.random() < 0.07:
            t = F32 if ty == I32 else I32  # operations of different types: the constructor asserts
        if t != ty and t not in arg_tys:
            arg_tys = arg_tys + [t]
        cand = [["a", i] for i, a in enumerate(arg_tys) if a == t]
        a = rng.choice(cand)
        b = a if rng.random() < 0.4 else rng.choice(cand)
        ops.append([rng.choice(INT_OPS if t == I32 else FLT_OPS), t, [a, b]])
    return {"kind": "from_ops", "arg_tys": arg_tys, "ops": ops}


def real_from_ops(case):
    from snaxc.dialects import phs
    from xdsl.dialects.builtin import SymbolRefAttr
    from xdsl.ir import Block
    blk = Block(arg_types=[_mlir_ty(t) for t in case["arg_tys"]])
    raw = [_op_cls(name)(*[blk.args[s[1]] for s in srcs]) for name, _, srcs in case["ops"]]
    blk.add_ops(raw)
    return phs.PEOp.from_operations(SymbolRefAttr("acc"), raw), blk


def gen_malformed(rng):
    """outside the quantifier: kernels of one history disagree on the interface, or do not use an argument"""
    nd = rng.choice([2, 3])
    tys = [rng.choice([I32, I32, F32]) for _ in range(nd)]
    bodies = []
    for k in range(rng.choice([2, 2, 3])):
        t = list(tys)
        mode = rng.random()
        if mode < 0.3:
            t[rng.randrange(nd)] = rng.choice([I32, F32])
        elif mode < 0.45:
            t = t + [rng.choice([I32, F32])]
        b = gen_body(rng, t + [t[-1]], rng.randint(1, 2), force_all=rng.random() < 0.4)
        if t.count(I64):
            # i64 arguments: rebuild result types of the ops that read them
            pass
        bodies.append(b)
    return bodies


def well_typed(body):
    """the generator only emits bodies whose ops read operands of the types their class asks for"""
    for j, (key, rty, srcs) in enumerate(body["ops"]):
        tys = [body["arg_tys"][s[1]] if s[0] == "a" else body["ops"][s[1]][1] for s in srcs]
        name = op_name(key)
        if name == "arith.cmpi":
            ok = len(tys) == 2 and tys[0] == tys[1] == I32 and rty == I1
        elif name == "arith.select":
            ok = len(tys) == 3 and tys[0] == I1 and tys[1] == tys[2] == rty
        elif name == "arith.constant":
            ok = not tys and rty == I32
        elif name == "arith.negf":
            ok = tys == [F32] and rty == F32
        else:
            ok = len(tys) == 2 and all(t == rty for t in tys)
        if not ok:
            return False
    return True


def strip_attrs(term):
    if isinstance(term, list) and len(term) == 2 and isinstance(term[1], list) and term[0] != "i":
        return [op_name(term[0]), [strip_attrs(a) for a in term[1]]]
    return term


def dc20a_fixed():
    """True iff finding DC20a is listed as fixed (known_findings.d/C20.json is the per-property source): the
    committed harness then expects fixes/DC20a-phs-compare-operation-attributes.diff applied to the tree under test
    and asks the driver for the model variant that identifies operations by name AND attributes. Override for
    experiments: C20_DC20A_FIXED=0/1."""
    import json
    import os
    env = os.environ.get("C20_DC20A_FIXED", "")
    if env in ("0", "1"):
        return env == "1"
    p = os.path.join(os.path.dirname(os.path.dirname(os.path.dirname(os.path.abspath(__file__)))),
                     "known_findings.d", "C20.json")
    try:
        return any(f.get("id") == "DC20a" and f.get("status") == "fixed" for f in json.load(open(p))["findings"])
    except (OSError, ValueError, KeyError):
        return True


FIXED = dc20a_fixed()


def attr_clause(bodies):
    """clause of C20_history_partial: among the operations of these bodies the class determines the operation"""
    seen = {}
    for b in bodies:
        for key, _, _ in b["ops"]:
            if seen.setdefault(op_name(key), op_attr(key)) != op_attr(key):
                return False
    return True


def gen_pass_case(rng, tier):
    """a module for the phs-encode pass: the generics of one or two accelerators interleaved"""
    hists = [gen_history(rng, tier, 8)]
    if rng.random() < 0.6:
        hists.append(gen_history(rng, tier, 8))
    tagged = [(b, f"acc{i}") for i, h in enumerate(hists) for b in h]
    # interleave, keeping the order inside each accelerator
    order = []
    idx = [0] * len(hists)
    while any(idx[i] < len(h) for i, h in enumerate(hists)):
        i = rng.choice([i for i, h in enumerate(hists) if idx[i] < len(h)])
        order.append((hists[i][idx[i]], f"acc{i}"))
        idx[i] += 1
    if rng.random() < 0.3:  # an untagged generic somewhere in the module
        order.insert(rng.randrange(len(order) + 1), (gen_body(rng, [I32, I32, I32], 2), None))
    return {"kind": "pass", "bodies": [b for b, _ in order], "accs": [a for _, a in order]}


def gen_attr_history(rng):
    """kernels over operations WITH attributes and other arities: arith.cmpi <pred> + arith.select (min / max /
    clamp-like), in-body arith.constant operands, unary arith.negf. Same or different attributes across the
    kernels of a history (different ones: finding DC20a)."""
    nk = rng.choice([2, 2, 3, 4])
    flavour = rng.choice(["cmp", "cmp", "const", "const", "neg"])
    same = rng.random() < 0.45
    bodies = []
    pred0, c0 = rng.choice(CMPI_PREDS), rng.choice([0, 1, 3, 7, 255])
    for _ in range(nk):
        if flavour == "cmp":
            at = [I32, I32, I32]
            pred = pred0 if same else rng.choice(CMPI_PREDS)
            a, b = rng.choice([(["a", 0], ["a", 1]), (["a", 1], ["a", 0])])
            x, y = rng.choice([(["a", 0], ["a", 1]), (["a", 1], ["a", 0])])
            ops = [[["arith.cmpi", pred], I1, [a, b]], ["arith.select", I32, [["r", 0], x, y]]]
            if rng.random() < 0.4:
                ops.append([rng.choice(INT_OPS), I32, [["r", 1], rng.choice([["a", 0], ["a", 1]])]])
            bodies.append({"arg_tys": at, "ops": ops, "yield": ["r", len(ops) - 1]})
        elif flavour == "const":
            at = [I32, I32, I32]
            c = c0 if same else rng.choice([0, 1, 3, 7, 255])
            ops = [[["arith.constant", str(c)], I32, []],
                   [rng.choice(INT_OPS), I32, rng.choice([[["a", 0], ["r", 0]], [["r", 0], ["a", 0]]])],
                   [rng.choice(INT_OPS), I32, rng.choice([[["r", 1], ["a", 1]], [["a", 1], ["r", 1]]])]]
            bodies.append({"arg_tys": at, "ops": ops, "yield": ["r", 2]})
        else:
            at = [F32, F32, F32]
            ops = [["arith.negf", F32, [rng.choice([["a", 0], ["a", 1]])]],
                   [rng.choice(FLT_OPS), F32, [["r", 0], rng.choice([["a", 0], ["a", 1]])]],
                   [rng.choice(FLT_OPS), F32, [["r", 1], rng.choice([["a", 0], ["a", 1]])]]]
            b = {"arg_tys": at, "ops": ops, "yield": ["r", 2]}
            if used_args(b) != [0, 1]:
                ops[2][2][1] = ["a", 1] if 1 not in used_args(b) else ["a", 0]
            bodies.append(b)
    return {"kind": "attr", "bodies": bodies}


class C20(Prop):
    id = "C20"
    PARALLEL = True
    CASE_TIMEOUT = 60
    exhaustive_thorough = True
    trusted_base = [
        "PE interpreter of harness/props/c20.py (dataflow evaluation of phs.pe/phs.choose/phs.mux on the real xDSL graph)",
        "conversion of the real phs.pe to canonical JSON (muxes as trees; rejects graphs where a mux has several uses)",
    ]
    assumptions = [
        "fix F09 (ChooseOp.from_operations wires operands by position) is applied to the tree under test",
        "operations are attribute-free binary arith ops (ops distinguished only by attributes are decoded by type: outside WF)",
        "phs.mux selects rhs iff its switch is 1; a one-operation phs.choose has no hardware switch (value 0)",
        "float operations are interpreted over exact rationals in the concrete oracle; the symbolic oracle needs no semantics",
    ]
    rule = ("distinct by canonical JSON of the history; non-trivial = at least two kernels, the final merged graph "
            "contains a mux and every merged kernel decodes")

    # -- generator ----------------------------------------------------------------------------
    def cases(self, rng, tier):
        n = 600 if tier == "quick" else 4000
        maxmux = 9 if tier == "quick" else 11
        # the real phs-encode pass on one module with the generics of one or two accelerators interleaved
        for i in range(30 if tier == "quick" else 300):
            yield gen_pass_case(rng, tier)
        # operations with attributes / other arities (cmpi+select, in-body constants, unary)
        for i in range(60 if tier == "quick" else 600):
            yield gen_attr_history(rng)
        # large elements (10..14 muxes), every merged kernel re-decoded after every merge
        for i in range(24 if tier == "quick" else 300):
            yield gen_large(rng)
        for i in range(n):
            if rng.random() < 0.1:
                yield {"kind": "malformed", "bodies": gen_malformed(rng)}
                continue
            if rng.random() < 0.04:
                yield gen_from_ops(rng)
                continue
            if rng.random() < 0.04:
                yield gen_graphs_case(rng, rng.choice(["upstream", "json"]))
                continue
            if rng.random() < 0.15:
                bodies, groups = gen_grouped(rng, tier, maxmux)
                yield {"kind": "grouped", "bodies": bodies, "groups": groups}
                continue
            bodies = gen_history(rng, tier, maxmux)
            rng.shuffle(bodies)
            yield {"kind": "history", "bodies": bodies}
        if tier == "thorough":
            # the upstream test inputs in every merge plan of up to three graphs, built by the upstream code and by
            # the harness's own builder
            gs = recorded_upstream()
            for k in (1, 2, 3):
                for plan in itertools.permutations(range(len(gs)), k):
                    for source in ("upstream", "json"):
                        yield {"kind": "graphs", "source": source, "graphs": gs, "plan": list(plan)}
            # exhaustive: every ordered history of <= 3 kernels drawn from a fixed pool of 1-op/2-op bodies
            # over two i32 ports and two ops, every merge order
            pool = []
            at = [I32, I32, I32]
            srcs1 = [["a", 0], ["a", 1]]
            for nm in ("arith.addi", "arith.muli"):
                for a in srcs1:
                    for b in srcs1:
                        if {a[1], b[1]} == {0, 1}:
                            pool.append({"arg_tys": at, "ops": [[nm, I32, [a, b]]], "yield": ["r", 0]})
                        for nm2 in ("arith.addi", "arith.subi"):
                            for c in srcs1 + [["r", 0]]:
                                body = {"arg_tys": at, "ops": [[nm, I32, [a, b]], [nm2, I32, [c, ["r", 0]]]],
                                        "yield": ["r", 1]}
                                if used_args(body) == [0, 1]:
                                    pool.append(body)
            for k in (1, 2):
                for hist in itertools.permutations(pool, k):
                    yield {"kind": "history", "bodies": list(hist)}
            srng = random.Random(rng.random())
            for _ in range(1500):
                hist = srng.sample(pool, 3)
                for perm in itertools.permutations(hist):
                    yield {"kind": "history", "bodies": list(perm)}

    # -- the real code ------------------------------------------------------------------------
    def impl(self, case):
        try:
            return self._impl(case)
        except Unrepresentable:
            # only reachable outside the quantifier (a kernel with more data ports than the element: a switch
            # block argument ends up wired as data); the model side recognises the same situation
            return {"unrepresentable": True}

    def _impl_from_ops(self, case):
        try:
            pe, blk = real_from_ops(case)
        except (AssertionError, IndexError, ValueError) as e:
            return {"raised": type(e).__name__}
        pe.verify()
        pj, _, _ = pe_json(pe)
        n = len(pe.data_operands())
        terms = []
        for i in range(len(case["ops"])):
            try:
                terms.append(eval_pe(pe, sym_inputs(n), [i], sym_sem))
            except Invalid:
                terms.append(None)
        return {"pe": pj, "true": pe.get_true_switches(), "concrete": pe.is_concrete(), "terms": terms}

    def _graphs_objects(self, case, keep):
        if case["source"] == "upstream":
            pes = upstream_graphs()
            if [pe_json(p)[0] for p in pes] != case["graphs"]:
                return None
            return pes
        pes = []
        for g in case["graphs"]:
            pe, k = real_pe_from_json(g)
            keep.append(k)
            pes.append(pe)
        return pes

    def _impl_graphs(self, case):
        from snaxc.phs.combine import append_to_abstract_graph
        from snaxc.phs.decode import decode_abstract_graph
        keep = []
        gs = self._graphs_objects(case, keep)       # decoded against the element
        merged = self._graphs_objects(case, keep)   # fresh objects: the element and what is appended to it
        if gs is None or merged is None:
            return {"upstream_inputs_differ_from_recorded": True}
        plan = case["plan"]
        out = {"steps": []}
        if not plan:
            return out
        abst = merged[plan[0]]
        for t, i in enumerate(plan):
            if t > 0:
                try:
                    append_to_abstract_graph(merged[i], abst)
                except Unrepresentable:
                    raise
                except Exception as e:  # noqa: BLE001
                    out["steps"].append({"raised": type(e).__name__})
                    break
            pj, ssa_ok, _ = pe_json(abst)
            decs = []
            for k in gs:
                try:
                    sw = [int(x) for x in decode_abstract_graph(abst, k)]
                except Exception as e:  # noqa: BLE001
                    decs.append({"raised": type(e).__name__})
                    continue
                full = full_switches(abst, sw)
                try:
                    term = eval_pe(abst, sym_inputs(len(abst.data_operands())), full, sym_sem)
                except Invalid:
                    term = None
                decs.append({"sw": sw, "full": full, "term": term})
            try:
                self_dec = {"sw": [int(x) for x in decode_abstract_graph(abst, abst)]}
            except Exception as e:  # noqa: BLE001
                self_dec = {"raised": type(e).__name__}
            out["steps"].append({"pe": pj, "ssa_ok": ssa_ok, "true": abst.get_true_switches(), "dec": decs,
                                 "self": self_dec})
        return out

    def _oracle_graphs(self, case):
        """for plans that merge concrete graphs (kernels) only: every merged one decodes, the count is right, the
        element under the decoded switches computes what the kernel itself computes"""
        from snaxc.phs.combine import append_to_abstract_graph
        from snaxc.phs.decode import decode_abstract_graph
        keep = []
        gs = self._graphs_objects(case, keep)
        merged = self._graphs_objects(case, keep)
        if gs is None or merged is None:
            return [{"what": "the upstream test inputs are not the recorded ones (tests/dialects/phs/create_input.py or "
                             "the constructors it uses changed)", "finding": None}]
        plan = case["plan"]
        if not plan or not all(gs[i].is_concrete() for i in plan):
            return []
        sigs = [[ty_json(a.type) for a in gs[i].data_operands()] for i in plan]
        if any(s_ != sigs[0] for s_ in sigs):
            return []
        out = []
        abst = merged[plan[0]]
        n = len(sigs[0])
        rnd = random.Random(len(plan) * 31 + n)
        for t, i in enumerate(plan):
            if t > 0:
                try:
                    append_to_abstract_graph(merged[i], abst)
                except Exception as e:  # noqa: BLE001
                    return [{"what": f"merging graph {i} raised {type(e).__name__}: {str(e)[:120]}", "finding": None}]
            for k in plan[:t + 1]:
                try:
                    sw = [int(x) for x in decode_abstract_graph(abst, gs[k])]
                except Exception as e:  # noqa: BLE001
                    out.append({"what": f"graph {k} is undecodable after {t + 1} merges: {type(e).__name__}", "finding": None})
                    continue
                if len(sw) != abst.get_true_switches():
                    out.append({"what": f"decode of graph {k} yields {len(sw)} values, get_true_switches() = "
                                        f"{abst.get_true_switches()}", "finding": None})
                    continue
                full = full_switches(abst, sw)
                zeros = [0] * gs[k].switch_no.value.data
                try:
                    got = eval_pe(abst, sym_inputs(n), full, sym_sem)
                    want = eval_pe(gs[k], sym_inputs(n), zeros, sym_sem)
                except Invalid as e:
                    out.append({"what": f"graph {k} after {t + 1} merges is not evaluable ({e})", "finding": None})
                    continue
                if got == want:
                    continue
                for p in concrete_inputs(sigs[0], rnd):
                    try:
                        g_ = eval_pe(abst, p, full, conc_sem)
                    except Invalid as e:
                        g_ = f"invalid: {e}"
                    w = eval_pe(gs[k], p, zeros, conc_sem)
                    if g_ != w:
                        out.append({"what": f"graph {k} after {t + 1} merges: merged element computes {g_} instead of "
                                            f"{w} on inputs {[str(x) for x in p]} under switches {full}", "finding": None})
                        break
            if out:
                return out
        return out

    def _impl_pass(self, case):
        pes, module = run_encode_pass(case["bodies"], case["accs"])
        return {"pes": {a: pe_json(p)[0] for a, p in sorted(pes.items())}}

    def _oracle_pass(self, case):
        """the element the pass leaves for an accelerator decodes every generic tagged with it to its function, and
        is what merging those generics alone gives (state carried from one generic of the module to the next)"""
        from snaxc.phs.decode import decode_abstract_graph
        pes, module = run_encode_pass(case["bodies"], case["accs"])
        out = []
        for acc in sorted({a for a in case["accs"] if a is not None}):
            if acc not in pes:
                out.append({"what": f"phs-encode left no phs.pe @{acc} in the module", "finding": None})
                continue
            abst = pes[acc]
            bodies = [b for b, a in zip(case["bodies"], case["accs"]) if a == acc]
            sig = signature(bodies[0])
            keep = []
            alone = real_group_graph(bodies, list(range(len(bodies))), keep)
            if pe_json(alone)[0] != pe_json(abst)[0]:
                out.append({"what": f"phs.pe @{acc} after the pass differs from merging its generics alone", "finding": None})
            for i, b in enumerate(bodies):
                k, owner = real_encode(b)
                keep.append(owner)
                try:
                    sw = [int(x) for x in decode_abstract_graph(abst, k)]
                except Exception as e:  # noqa: BLE001
                    out.append({"what": f"@{acc}: generic {i} is undecodable after the pass: {type(e).__name__}", "finding": None})
                    continue
                if len(sw) != abst.get_true_switches():
                    out.append({"what": f"@{acc}: {len(sw)} values, get_true_switches() = {abst.get_true_switches()}",
                                "finding": None})
                    continue
                try:
                    got = eval_pe(abst, sym_inputs(len(sig)), full_switches(abst, sw), sym_sem)
                except Invalid as e:
                    got = f"invalid: {e}"
                if got != eval_body(b, sym_inputs(len(sig)), sym_sem):
                    out.append({"what": f"@{acc}: the element of the pass computes {str(got)[:120]} for generic {i}", "finding": None})
        return out

    def _impl(self, case):
        if case["kind"] == "pass":
            return self._impl_pass(case)
        if case["kind"] == "from_ops":
            return self._impl_from_ops(case)
        if case["kind"] == "graphs":
            return self._impl_graphs(case)
        from snaxc.phs.combine import append_to_abstract_graph
        from snaxc.phs.decode import decode_abstract_graph
        bodies = case["bodies"]
        if not all(well_typed(b) for b in bodies):
            return {"invalid_input": "ill-typed body"}
        enc, ks, keep = [], [], []
        for b in bodies:
            try:
                pe, owner = real_encode(b)
                keep.append(owner)
                pe.verify()
                enc.append(pe_json(pe)[0])
                ks.append(pe)
            except Unrepresentable:
                raise
            except Exception as e:  # noqa: BLE001
                enc.append({"raised": type(e).__name__})
        kterm = []
        for b, k in zip(bodies, ks):
            try:
                kterm.append(eval_pe(k, sym_inputs(len(k.data_operands())), [0] * k.switch_no.value.data, sym_sem))
            except Invalid:
                kterm.append(None)
        bterm = []
        for b in bodies:  # reference semantics of the body itself (independent of encode)
            try:
                bterm.append(eval_body(b, sym_inputs(len(used_args(b))), sym_sem))
            except (KeyError, IndexError):
                bterm.append(None)
        out = {"enc": enc, "kterm": kterm, "bterm": bterm, "steps": []}
        if len(ks) != len(bodies) or not ks:
            return out
        groups = case_groups(case)
        abst = None
        merged_only = bool(case.get("merged_only"))
        merged_so_far = []
        for t, grp in enumerate(groups):
            try:
                g = real_group_graph(bodies, grp, keep)
                if t == 0:
                    abst = g
                else:
                    append_to_abstract_graph(g, abst)
            except Unrepresentable:
                raise
            except Exception as e:  # noqa: BLE001
                out["steps"].append({"raised": type(e).__name__})
                break
            merged_so_far = merged_so_far + list(grp)
            pj, ssa_ok, uniq = pe_json(abst)
            decs = []
            for ki, k in enumerate(ks):
                if merged_only and ki not in merged_so_far:
                    decs.append(None)  # large elements: an unmerged kernel would exhaust the exponential search
                    continue
                try:
                    sw = [int(x) for x in decode_abstract_graph(abst, k)]
                except Exception as e:  # noqa: BLE001
                    decs.append({"raised": type(e).__name__})
                    continue
                full = full_switches(abst, sw)
                try:
                    term = eval_pe(abst, sym_inputs(len(abst.data_operands())), full, sym_sem)
                except Invalid:
                    term = None
                decs.append({"sw": sw, "full": full, "term": term})
            try:  # the element decoded against itself: only a concrete graph may be decoded
                self_dec = {"sw": [int(x) for x in decode_abstract_graph(abst, abst)]}
            except Exception as e:  # noqa: BLE001
                self_dec = {"raised": type(e).__name__}
            out["steps"].append({"pe": pj, "ssa_ok": ssa_ok, "hyp_ok": True,
                                 "attr_clause": FIXED or attr_clause([bodies[i] for i in merged_so_far]),
                                 "true": abst.get_true_switches(), "dec": decs, "self": self_dec})
        return out

    # -- the model ----------------------------------------------------------------------------
    def requests(self, case):
        if case["kind"] == "from_ops":
            return [{"fn": "c20.fromops", "args": {"ops": [
                [name, [case["arg_tys"][s[1]] for s in srcs], rty] for name, rty, srcs in case["ops"]]}}]
        if case["kind"] == "graphs":
            return [{"fn": "c20.graphs", "args": {"fixed": FIXED, "graphs": case["graphs"], "plan": case["plan"]}}]
        if case["kind"] == "pass":
            return [{"fn": "c20.history", "args": {"fixed": FIXED, "merged_only": True, "bodies": [
                b for b, a in zip(case["bodies"], case["accs"]) if a == acc]}} for acc in sorted({a for a in case["accs"] if a is not None})]
        if not all(well_typed(b) for b in case["bodies"]):
            return []
        args = {"bodies": case["bodies"]}
        if case.get("groups"):
            args["groups"] = case["groups"]
        if case.get("merged_only"):
            args["merged_only"] = True
        args["fixed"] = FIXED
        return [{"fn": "c20.history", "args": args}]

    def model(self, case, answers):
        if case["kind"] == "pass":
            pes = {}
            for acc, a in zip(sorted({a for a in case["accs"] if a is not None}), answers):
                if "ok" not in a:
                    return {"model_error": a.get("err")}
                last = a["ok"]["steps"][-1]
                pes[acc] = last.get("pe", last)
            return {"pes": pes}
        if not answers:
            return {"invalid_input": "ill-typed body"}
        a = answers[0]
        if "ok" not in a:
            return {"model_error": a.get("err")}
        out = a["ok"]
        if case["kind"] in ("from_ops", "graphs"):
            return out

        def switch_as_data(src, nd):
            if src[0] == "a":
                return src[1] >= nd
            if src[0] == "m":
                return switch_as_data(src[2], nd) or switch_as_data(src[3], nd)
            return False

        for st in out.get("steps", []):
            if "pe" in st:
                nd = len(st["pe"]["arg_tys"])
                srcs = [st["pe"]["yield"]] + [s for n in st["pe"]["nodes"] for s in n["operands"]]
                if any(switch_as_data(s, nd) for s in srcs):
                    return {"unrepresentable": True}
        return out

    # -- the property on the real code ------------------------------------------------------
    def oracle(self, case, impl_out):
        """Runs the real code again (fresh objects) and evaluates the property with the PE interpreter."""
        from snaxc.phs.combine import append_to_abstract_graph
        from snaxc.phs.decode import decode_abstract_graph
        if case["kind"] == "pass":
            return self._oracle_pass(case)
        if case["kind"] == "from_ops":
            return self._oracle_from_ops(case)
        if case["kind"] == "graphs":
            return self._oracle_graphs(case)
        bodies = case["bodies"]
        if not all(well_typed(b) for b in bodies) or not bodies:
            return []
        sig = signature(bodies[0])
        if any(signature(b) != sig for b in bodies) or any(not b["ops"] for b in bodies):
            return []  # kernels of one history must share the interface of the processing element
        out = []
        keep = []
        try:
            ks = []
            for b in bodies:
                pe, owner = real_encode(b)
                keep.append(owner)
                ks.append(pe)
        except Exception as e:  # noqa: BLE001
            return [{"what": f"encoding a kernel body raised {type(e).__name__}: {str(e)[:120]}", "finding": None}]
        rnd = random.Random(len(bodies) * 7919 + len(sig))
        pts = None
        groups = case_groups(case)
        merged = []
        abst = None
        for t, grp in enumerate(groups):
            try:
                g = real_group_graph(bodies, grp, keep)
            except Exception as e:  # noqa: BLE001
                out.append({"what": f"merging the kernels {grp} raised {type(e).__name__}: {str(e)[:120]}", "finding": None})
                return out
            if t == 0:
                abst = g
            else:
                from snaxc.dialects import phs as _phs
                has_mux = any(isinstance(o, _phs.MuxOp) for o in g.body.block.ops)
                try:
                    append_to_abstract_graph(g, abst)
                except NotImplementedError as e:
                    if has_mux:
                        return out  # a graph with muxes is not accepted as `graph`: documented, not a violation
                    out.append({"what": f"merging group {t} raised NotImplementedError: {str(e)[:120]}", "finding": None})
                    return out
                except Exception as e:  # noqa: BLE001
                    out.append({"what": f"merging group {t} raised {type(e).__name__}: {str(e)[:120]}", "finding": None})
                    return out
            merged = merged + list(grp)
            true_sw = abst.get_true_switches()
            for i in merged:
                try:
                    sw = [int(x) for x in decode_abstract_graph(abst, ks[i])]
                except Exception as e:  # noqa: BLE001
                    out.append({"what": f"kernel {i} is undecodable after merging {len(merged)} kernels: {type(e).__name__}",
                                "finding": None})
                    continue
                if len(sw) != true_sw:
                    out.append({"what": f"decode of kernel {i} yields {len(sw)} values, get_true_switches() = {true_sw}",
                                "finding": None})
                    continue
                if not case.get("merged_only") or t == len(groups) - 1:  # (decodes again: last step only for large elements)
                    out.extend(self._call_op(abst, ks[i], sw, i))
                full = full_switches(abst, sw)
                try:
                    got = eval_pe(abst, sym_inputs(len(sig)), full, sym_sem)
                except Invalid as e:
                    out.append({"what": f"kernel {i} after {len(merged)} merges: decoded configuration is not evaluable ({e})",
                                "finding": None})
                    continue
                want_t = eval_body(bodies[i], sym_inputs(len(sig)), sym_sem)
                if got == want_t:
                    continue
                # known finding DC20a: the element computes the kernel's term up to the ATTRIBUTES of its operations,
                # and the merged kernels use one operation class with different attributes (attr_clause fails)
                fid = "DC20a" if (not FIXED and not attr_clause([bodies[q] for q in merged])
                                  and strip_attrs(got) == strip_attrs(want_t)) else None
                # terms differ: decide on concrete inputs
                if pts is None:
                    pts = concrete_inputs(sig, rnd)
                for p in pts:
                    try:
                        g_ = eval_pe(abst, p, full, conc_sem)
                    except Invalid as e:
                        g_ = f"invalid: {e}"
                    w = eval_body(bodies[i], p, conc_sem)
                    if g_ != w:
                        out.append({"what": f"kernel {i} after {len(merged)} merges: merged element computes {g_} instead of {w} "
                                            f"on inputs {[str(x) for x in p]} under switches {full}", "finding": fid})
                        break
            if any(v["finding"] is None for v in out):
                return out
        # hardware side: number of switch fields reported by the accelerator == number of values produced
        try:
            out.extend(self._accelerator_fields(abst, bodies))
        except Exception as e:  # noqa: BLE001
            out.append({"what": f"SNAXPHSAccelerator switch fields: {type(e).__name__}: {str(e)[:160]}", "finding": None})
        return out

    def _oracle_from_ops(self, case):
        """PEOp.from_operations: under switch value i the element computes operation i of its data ports, port j
        feeding operand j"""
        ops = case["ops"]
        if not ops or len({tuple(o[1]) for o in ops}) != 1:
            return []  # nothing promised: no operation / operations of different types (the constructor asserts)
        pe, blk = real_from_ops(case)
        n = len(pe.data_operands())
        out = []
        if n != 2:
            out.append({"what": f"PEOp.from_operations: {n} data ports for binary operations", "finding": None})
        if pe.get_true_switches() != (1 if len(ops) > 1 else 0):
            out.append({"what": "PEOp.from_operations: get_true_switches() is not 1 for several / 0 for one operation",
                        "finding": None})
        for i, (name, _, _) in enumerate(ops):
            try:
                got = eval_pe(pe, sym_inputs(n), [i], sym_sem)
            except Invalid as e:
                got = f"invalid: {e}"
            want = [name, sym_inputs(n)]
            if got != want:
                out.append({"what": f"PEOp.from_operations: under switch {i} the element computes {got}, expected {want}",
                            "finding": None})
        return out

    def _call_op(self, abst, k, sw, i):
        """decode_to_call_op: the emitted phs.call carries exactly the decoded values, in order"""
        from snaxc.dialects import phs
        from snaxc.phs.decode import decode_to_call_op
        from xdsl.dialects import arith
        ops = list(decode_to_call_op(abst, k))
        if not ops or not isinstance(ops[-1], phs.CallOp):
            return [{"what": f"decode_to_call_op of kernel {i} does not end in a phs.call", "finding": None}]
        call = ops[-1]
        consts = ops[:-1]
        vals = [c.value.value.data for c in consts if isinstance(c, arith.ConstantOp)]
        bad = []
        if vals != list(sw) or len(consts) != len(sw):
            bad.append(f"switch constants {vals} != decoded values {list(sw)}")
        if [o.owner for o in call.switches] != consts:
            bad.append("the call's switch operands are not the emitted constants, in order")
        if list(call.data_operands) != list(abst.data_operands()):
            bad.append("the call's data operands are not the element's data ports")
        if call.name_prop.data != abst.name_prop.data:
            bad.append("the call names another element")
        return [{"what": f"decode_to_call_op of kernel {i}: {b}", "finding": None} for b in bad]

    def _accelerator_fields(self, abst, bodies):
        from snaxc.accelerators.snax_phs import SNAXPHSAccelerator
        from snaxc.phs.template_spec import TemplateSpec
        from xdsl.ir.affine import AffineMap
        nd = len(abst.data_operands())
        ident = AffineMap.identity(1)
        acc = SNAXPHSAccelerator(abst, TemplateSpec((ident,) * max(nd, 1), (ident,), (4,)))
        nfields = len(acc.phs_switch_fields)
        out = []
        if nfields != len([f for f in acc.fields if f.startswith("phs_switch_")]):
            out.append({"what": "phs_switch fields missing from the accelerator's field list", "finding": None})
        if nfields != abst.get_true_switches():
            out.append({"what": f"accelerator reports {nfields} switch fields, get_true_switches() = {abst.get_true_switches()}",
                        "finding": None})
        # the accfg.accelerator op: one CSR per switch field, no address shared with another field
        op = acc.generate_acc_op()
        fields = {k: v.value.data for k, v in op.fields.data.items()}
        launch = {k: v.value.data for k, v in op.launch_fields.data.items()}
        sw_fields = [k for k in fields if k.startswith("phs_switch_")]
        if sorted(sw_fields) != sorted(acc.phs_switch_fields):
            out.append({"what": f"accfg.accelerator declares switch fields {sw_fields}, expected {acc.phs_switch_fields}",
                        "finding": None})
        addrs = list(fields.values()) + list(launch.values()) + [op.barrier.value.data]
        if len(set(addrs)) != len(addrs):
            out.append({"what": "accfg.accelerator of the PHS accelerator maps two fields to one CSR address", "finding": None})
        for i, b in enumerate(bodies):
            mod, gen = build_generic(b)
            vals = acc.get_switch_values(gen)
            if len(vals) != nfields:
                out.append({"what": f"accelerator reports {nfields} switch fields, kernel {i} produces {len(vals)} values",
                            "finding": None})
        return out

    def nontrivial(self, case, impl_out):
        if case["kind"] == "pass":
            return isinstance(impl_out, dict) and len(case["bodies"]) > 1
        if case["kind"] == "from_ops":
            return isinstance(impl_out, dict) and len(impl_out.get("terms", [])) > 1
        if case["kind"] == "graphs":
            return isinstance(impl_out, dict) and len(impl_out.get("steps", [])) > 1
        if not isinstance(impl_out, dict) or not impl_out.get("steps") or len(case["bodies"]) < 2:
            return False
        last = impl_out["steps"][-1]
        if "pe" not in last:
            return False
        return any(s == ["m"] for s in last["pe"]["switches"]) and all("sw" in d for d in last["dec"])

    def stats_key(self, case, impl_out):
        k = case.get("kind", "case")
        if k == "pass":
            return f"{k}:accs={len({a for a in case['accs'] if a})}:n={len(case['bodies'])}"
        if k == "from_ops":
            return f"{k}:raised:{impl_out['raised']}" if "raised" in impl_out else f"{k}:n={len(case['ops'])}"
        if k == "graphs":
            last = (impl_out.get("steps") or [{}])[-1] if isinstance(impl_out, dict) else {}
            return f"{k}:{case['source']}:" + (f"merge-raised:{last['raised']}" if "raised" in last else f"n={len(case['plan'])}")
        if isinstance(impl_out, dict) and "raised" in impl_out:
            return f"{k}:raised:{impl_out['raised']}"
        if isinstance(impl_out, dict) and impl_out.get("steps"):
            last = impl_out["steps"][-1]
            if "raised" in last:
                return f"{k}:merge-raised:{last['raised']}"
            return f"{k}:n={len(case['bodies'])}:mux={sum(1 for s in last['pe']['switches'] if s == ['m'])}"
        return f"{k}:no-steps"

    def shrink(self, case):
        if case["kind"] == "pass":
            for i in range(len(case["bodies"])):
                if len(case["bodies"]) > 1:
                    yield dict(case, bodies=case["bodies"][:i] + case["bodies"][i + 1:], accs=case["accs"][:i] + case["accs"][i + 1:])
            return
        if case["kind"] == "graphs":
            for i in range(1, len(case["plan"])):
                yield dict(case, plan=case["plan"][:i] + case["plan"][i + 1:])
            return
        if case["kind"] == "from_ops":
            for i in range(len(case["ops"])):
                yield {"kind": "from_ops", "arg_tys": case["arg_tys"], "ops": case["ops"][:i] + case["ops"][i + 1:]}
            return
        bodies = case["bodies"]
        if case.get("groups"):
            groups = case["groups"]
            # drop a whole group (re-index), or flatten the plan
            for gi in range(len(groups)):
                if len(groups) > 1:
                    keepi = [i for g in groups[:gi] + groups[gi + 1:] for i in g]
                    remap = {old: new for new, old in enumerate(sorted(keepi))}
                    yield {"kind": case["kind"], "bodies": [bodies[i] for i in sorted(keepi)],
                           "groups": [[remap[i] for i in g] for g in groups[:gi] + groups[gi + 1:]]}
            return
        for i in range(len(bodies)):
            if len(bodies) > 1:
                yield {"kind": case["kind"], "bodies": bodies[:i] + bodies[i + 1:]}
        for i, b in enumerate(bodies):
            n = len(b["ops"])
            if n > 1:
                # drop the last op if nothing but the yield refers to it
                ops = b["ops"][:-1]
                y = b["yield"] if b["yield"] != ["r", n - 1] else ["r", n - 2]
                nb = {"arg_tys": b["arg_tys"], "ops": ops, "yield": y}
                yield {"kind": case["kind"], "bodies": bodies[:i] + [nb] + bodies[i + 1:]}


PROP = C20()
