"""C17 — loop restructuring preserves the executed operation sequence.

Passes: `pipeline-canonicalize-for` (ChangeForStep with fix F03, MergeForLoops) and `reuse-memref-allocs`
(LoopHoistPureOperations, MoveMemrefDims). Translation-validation style: every individual rewrite the greedy driver
performs on a generated program is converted to the Lean loop IR and replayed through the model rule; the oracle
interprets the real IR before/after the whole pass and compares the traces of side-effecting ops.
"""
import contextlib
import os
import random

import compat  # noqa: F401
import snaxrun
from framework import Prop, CaseTimeout

FIXED_F03 = True  # the committed model is the code WITH fixes/F03-changeforstep-ceil.diff
# fixes FC17a / FC17b: the model variant of the FIXED code is used when the finding is listed as fixed in known_findings.d/C17.json
# (they are in /repo since 85c92b8 / ea0f265); C17_FIXES=… overrides, e.g. C17_FIXES=none to check a tree without them


def _fixed_c17():
    env = os.environ.get("C17_FIXES")
    if env is not None:
        return {x.strip() for x in env.split(",") if x.strip() and x.strip() != "none"}
    import json
    f = os.path.join(os.path.dirname(os.path.dirname(os.path.dirname(os.path.abspath(__file__)))), "known_findings.d", "C17.json")
    try:
        ents = json.load(open(f))["findings"]
    except Exception:
        return set()
    m = {"DC17a": "FC17a", "DC17b": "FC17b"}
    return {m[e["id"]] for e in ents if e.get("status") == "fixed" and e["id"] in m}


PROPOSED = _fixed_c17()

RULES = {"ChangeForStep": "changeStep", "MergeForLoops": "merge", "LoopHoistPureOperations": "hoist",
         "MoveMemrefDims": "moveDim", "dce": "dce"}
MAX_EVENTS = 20000


class Unsupported(Exception):
    pass


class Invalid(Exception):
    """the program is outside scf.for's contract (non-positive step) or not executable by the interpreter"""


class Undefined(Exception):
    pass


# ------------------------------------------------------------------------------------------------------------------
# step logging (own copy of snaxrun.log_greedy_steps that also records the attempt during which the code raised)
# ------------------------------------------------------------------------------------------------------------------
@contextlib.contextmanager
def log_steps(log: list):
    import xdsl.pattern_rewriter as pr
    from xdsl.transforms.dead_code_elimination import is_trivially_dead
    orig = pr.GreedyRewritePatternApplier.match_and_rewrite

    cache = {"top": None, "text": None, "fp": None}

    def fingerprint(top):
        return hash(tuple((id(o), id(o.parent), tuple(id(x) for x in o.operands)) for o in top.walk()))

    def current(top):
        """printed IR before the next attempt (re-printed only after a change)"""
        if cache["top"] is not top or cache["text"] is None:
            cache.update(top=top, text=snaxrun.text(top), fp=fingerprint(top))
        return cache["text"]

    def changed(top):
        cache.update(top=top, text=snaxrun.text(top), fp=fingerprint(top))
        return cache["text"]

    def wrapped(self, op, rewriter):
        top = snaxrun.top_of(op)
        if getattr(self, "dce_enabled", False) and is_trivially_dead(op):
            before = current(top)
            p = snaxrun.path_of(op)
            rewriter.erase(op)
            log.append(("dce", p, before, changed(top), None))
            return
        if (getattr(self, "folding_enabled", False)
                and op.has_trait(pr.HasFolder, value_if_unregistered=False)
                and not op.has_trait(pr.ConstantLike, value_if_unregistered=True)):
            before = current(top)
            p = snaxrun.path_of(op)
            folded = pr.Folder(self.ctx).try_fold(op)
            if folded is not None:
                folded_values, folded_ops = folded
                rewriter.replace(op, new_ops=folded_ops, new_results=folded_values)
                log.append(("fold", p, before, changed(top), None))
                return
        for pat in self.rewrite_patterns:
            before = current(top)
            p = snaxrun.path_of(op)
            try:
                pat.match_and_rewrite(op, rewriter)
            except CaseTimeout:
                raise
            except Exception as e:
                log.append((type(pat).__name__, p, before, None, type(e).__name__))
                raise
            if rewriter.has_done_action:
                log.append((type(pat).__name__, p, before, changed(top), None))
                return
            if fingerprint(top) != cache["fp"]:  # the pattern changed the IR behind the rewriter's back (MoveMemrefDims does)
                log.append((type(pat).__name__, p, before, changed(top), None))

    pr.GreedyRewritePatternApplier.match_and_rewrite = wrapped
    try:
        yield log
    finally:
        pr.GreedyRewritePatternApplier.match_and_rewrite = orig


# ------------------------------------------------------------------------------------------------------------------
# real IR -> model JSON
# ------------------------------------------------------------------------------------------------------------------
def find_func(mod):
    from xdsl.dialects import func
    for o in mod.walk():
        if isinstance(o, func.FuncOp):
            return o
    raise Unsupported("no func.func")


def _lin(expr, nd, n):
    """AffineExpr -> (const, [coeff per operand]) or Unsupported"""
    from xdsl.ir.affine import AffineBinaryOpExpr, AffineBinaryOpKind, AffineConstantExpr, AffineDimExpr, AffineSymExpr
    if isinstance(expr, AffineConstantExpr):
        return expr.value, [0] * n
    if isinstance(expr, AffineDimExpr):
        return 0, [1 if k == expr.position else 0 for k in range(n)]
    if isinstance(expr, AffineSymExpr):
        return 0, [1 if k == nd + expr.position else 0 for k in range(n)]
    if isinstance(expr, AffineBinaryOpExpr):
        a, b = _lin(expr.lhs, nd, n), _lin(expr.rhs, nd, n)
        if expr.kind == AffineBinaryOpKind.Add:
            return a[0] + b[0], [x + y for x, y in zip(a[1], b[1])]
        if expr.kind == AffineBinaryOpKind.Mul:
            if not any(b[1]):
                return a[0] * b[0], [x * b[0] for x in a[1]]
            if not any(a[1]):
                return a[0] * b[0], [x * a[0] for x in b[1]]
    raise Unsupported("non-linear affine expression")


def index_const(v):
    from xdsl.dialects import arith
    from xdsl.dialects.builtin import IndexType, IntegerAttr
    from xdsl.ir import OpResult
    if isinstance(v, OpResult) and isinstance(v.op, arith.ConstantOp) and isinstance(v.type, IndexType) \
            and isinstance(v.op.value, IntegerAttr):
        return v.op.value.value.data
    return None


def dropped(op):
    from xdsl.dialects import arith, func, scf
    if isinstance(op, (scf.YieldOp, func.ReturnOp)):
        return True
    return isinstance(op, arith.ConstantOp) and index_const(op.result) is not None


class Conv:
    def __init__(self, f):
        from xdsl.dialects import scf
        self.f = f
        self.names = {}
        for a in f.body.block.args:
            self.names[a] = len(self.names)
        self.nargs = len(self.names)

        def assign(block):
            for op in block.ops:
                if dropped(op):
                    continue
                if isinstance(op, scf.ForOp):
                    if len(op.iter_args) or len(op.body.blocks) != 1:
                        raise Unsupported("scf.for with iter_args")
                    self.names[op.body.block.args[0]] = len(self.names)
                    assign(op.body.block)
                else:
                    if op.regions:
                        raise Unsupported(f"op with regions: {op.name}")
                    for r in op.results:
                        self.names[r] = len(self.names)
        assign(f.body.block)

    def arg(self, v):
        c = index_const(v)
        if c is not None:
            return ["c", c]
        if v not in self.names:
            raise Unsupported("value defined outside the function")
        return ["v", self.names[v]]

    def stmts(self, block):
        from xdsl.dialects import affine, arith, memref, scf, test
        from xdsl.dialects.builtin import DYNAMIC_INDEX, IntegerAttr, StringAttr
        out = []
        for op in block.ops:
            if dropped(op):
                continue
            if isinstance(op, scf.ForOp):
                out.append(["l", self.names[op.body.block.args[0]], self.arg(op.lb), self.arg(op.ub), self.arg(op.step),
                            self.stmts(op.body.block)])
                continue
            if isinstance(op, test.TestOp):
                tag = op.attributes.get("tag")
                if not isinstance(tag, StringAttr) or op.results:
                    raise Unsupported("test.op without tag / with results")
                out.append(["e", int(tag.data[1:]), [self.arg(o) for o in op.operands]])
                continue
            if unregistered(op):
                # nothing is known about an op of an unregistered dialect: it is an observable event (never pure, never dead);
                # a result is an uninterpreted function of the operands, defined right after the event
                eid = unreg_tag(op)
                if eid is None:
                    raise Unsupported("unregistered op without tag / with several results / with regions")
                args = [self.arg(o) for o in op.operands]
                out.append(["e", eid, args])
                if op.results:
                    fa = op.attributes.get("f")
                    out.append(["p", self.names[op.results[0]], ["opaque", fa.value.data if isinstance(fa, IntegerAttr) else 0], args])
                continue
            if len(op.results) != 1:
                raise Unsupported(f"op {op.name}")
            dst = self.names[op.results[0]]
            args = [self.arg(o) for o in op.operands]
            if isinstance(op, arith.ConstantOp):
                if not isinstance(op.value, IntegerAttr):
                    raise Unsupported("non-integer constant")
                kind = ["lit", op.value.value.data]
            elif isinstance(op, arith.MuliOp):
                kind = ["mul"]
            elif isinstance(op, arith.AddiOp):
                kind = ["add"]
            elif isinstance(op, arith.DivUIOp):
                kind = ["divui"]
            elif isinstance(op, arith.RemUIOp):
                kind = ["remui"]
            elif isinstance(op, test.TestPureOp):
                fa = op.attributes.get("f")
                kind = ["opaque", fa.value.data if isinstance(fa, IntegerAttr) else 0]
            elif isinstance(op, affine.MinOp):
                m = op.map.data
                n = len(op.operands)
                kind = ["amin", [list(_lin(r, m.num_dims, n)) for r in m.results]]
            elif isinstance(op, memref.DimOp):
                idx = index_const(op.index)
                if idx is None or idx < 0:
                    raise Unsupported("memref.dim with a non-constant index")
                kind = ["dim", idx]
                args = [self.arg(op.source)]
            elif isinstance(op, memref.SubviewOp):
                sizes = []
                dyn = list(op.sizes)
                for s in op.static_sizes.get_values():
                    sizes.append(self.arg(dyn.pop(0)) if s == DYNAMIC_INDEX else ["c", s])
                kind = ["subview", len(sizes)]
                args = [self.arg(op.source)] + sizes + [self.arg(o) for o in op.offsets] + [self.arg(o) for o in op.strides]
            elif isinstance(op, memref.AllocOp):
                if len(op.symbol_operands):
                    raise Unsupported("alloc with symbol operands")
                dyn = list(op.dynamic_sizes)
                sizes = []
                for s in op.memref.type.get_shape():
                    sizes.append(self.arg(dyn.pop(0)) if s == DYNAMIC_INDEX else ["c", s])
                kind = ["alloc"]
                args = sizes
            else:
                raise Unsupported(f"op {op.name}")
            out.append(["p", dst, kind, args])
        return out

    def program(self):
        return {"nargs": self.nargs, "prog": self.stmts(self.f.body.block)}


def convert(text):
    mod = snaxrun.parse(text)
    f = find_func(mod)
    return mod, f, Conv(f)


def unregistered(op):
    from xdsl.dialects.builtin import UnregisteredOp
    return isinstance(op, UnregisteredOp)


def unreg_tag(op):
    """event id of an op of an unregistered dialect: attribute tag = "uN" -> 1000 + N"""
    from xdsl.dialects.builtin import StringAttr
    tag = op.attributes.get("tag")
    if not isinstance(tag, StringAttr) or not tag.data.startswith("u") or len(op.results) > 1 or op.regions:
        return None
    return 1000 + int(tag.data[1:])


def width(op):
    """number of model statements an op becomes (an unregistered op with a result = its event + the value it defines)"""
    if dropped(op):
        return 0
    return 2 if unregistered(op) and len(op.results) == 1 else 1


def model_path(mod, real_path):
    """real position [(region, block, index)…] -> (indices in the model's blocks, target op was dropped?)"""
    op = mod
    out = []
    for k, (r, b, i) in enumerate(real_path):
        blk = op.regions[r].blocks[b]
        ops = list(blk.ops)
        if k > 0:
            out.append(sum(width(o) for o in ops[:i]))
        op = ops[i]
    return out, dropped(op), op


def canon(prog, nargs):
    """rename every value by order of definition (pre-order); function arguments keep 0..nargs-1"""
    names = {i: i for i in range(nargs)}

    def assign(stmts):
        for s in stmts:
            if s[0] in ("p", "l") and s[1] not in names:
                names[s[1]] = len(names)
            if s[0] == "l":
                assign(s[5])
    assign(prog)

    def a(x):
        return ["v", names.get(x[1], 100000 + x[1])] if x[0] == "v" else x

    def go(stmts):
        out = []
        for s in stmts:
            if s[0] == "p":
                out.append(["p", names[s[1]], s[2], [a(x) for x in s[3]]])
            elif s[0] == "e":
                out.append(["e", s[1], [a(x) for x in s[2]]])
            else:
                out.append(["l", names[s[1]], a(s[2]), a(s[3]), a(s[4]), go(s[5])])
        return out
    return go(prog)


# ------------------------------------------------------------------------------------------------------------------
# interpreter on the real IR (oracle; independent of the model)
# ------------------------------------------------------------------------------------------------------------------
def _u64(x):
    return x % (1 << 64)


def run_func(f, env_args):
    from xdsl.dialects import affine, arith, func, memref, scf, test
    from xdsl.dialects.builtin import DYNAMIC_INDEX, IntegerAttr, StringAttr
    env = {}
    for a, v in zip(f.body.block.args, env_args):
        env[a] = tuple(v) if isinstance(v, (list, tuple)) else v
    tr = []

    def get(v):
        if v not in env:
            raise Undefined("uses a value before its definition")
        return env[v]

    def block(b):
        for op in b.ops:
            if isinstance(op, arith.ConstantOp):
                if not isinstance(op.value, IntegerAttr):
                    raise Invalid("non-integer constant")
                env[op.result] = op.value.value.data
            elif isinstance(op, arith.MuliOp):
                env[op.result] = get(op.lhs) * get(op.rhs)
            elif isinstance(op, arith.AddiOp):
                env[op.result] = get(op.lhs) + get(op.rhs)
            elif isinstance(op, arith.DivUIOp):
                d = _u64(get(op.rhs))
                if d == 0:
                    raise Undefined("divides by zero")
                env[op.result] = _u64(get(op.lhs)) // d
            elif isinstance(op, arith.RemUIOp):
                d = _u64(get(op.rhs))
                if d == 0:
                    raise Undefined("divides by zero")
                env[op.result] = _u64(get(op.lhs)) % d
            elif isinstance(op, affine.MinOp):
                m = op.map.data
                vals = [get(o) for o in op.operands]
                env[op.result] = min(m.eval(vals[:m.num_dims], vals[m.num_dims:]))
            elif isinstance(op, memref.DimOp):
                sh = get(op.source)
                i = get(op.index)
                if not isinstance(sh, tuple) or not 0 <= i < len(sh):
                    raise Invalid("memref.dim out of range")
                env[op.result] = sh[i]
            elif isinstance(op, memref.SubviewOp):
                dyn = [get(o) for o in op.sizes]
                env[op.result] = tuple(dyn.pop(0) if s == DYNAMIC_INDEX else s for s in op.static_sizes.get_values())
                for o in list(op.offsets) + list(op.strides) + [op.source]:
                    get(o)
            elif isinstance(op, memref.AllocOp):
                dyn = [get(o) for o in op.dynamic_sizes]
                env[op.results[0]] = tuple(dyn.pop(0) if s == DYNAMIC_INDEX else s for s in op.results[0].type.get_shape())
            elif isinstance(op, test.TestPureOp):
                fa = op.attributes.get("f")
                fv = fa.value.data if isinstance(fa, IntegerAttr) else 0
                vals = [get(o) for o in op.operands]
                env[op.results[0]] = fv + sum((k + 1) * (v if isinstance(v, int) else 0) for k, v in enumerate(vals))
            elif isinstance(op, test.TestOp):
                tag = op.attributes.get("tag")
                if not isinstance(tag, StringAttr) or op.results:
                    raise Invalid("test.op without tag")
                tr.append((tag.data, tuple(get(o) for o in op.operands)))
                if len(tr) > MAX_EVENTS:
                    raise Invalid("trace too long")
            elif unregistered(op):
                eid = unreg_tag(op)
                if eid is None:
                    raise Invalid("unregistered op without tag")
                vals = [get(o) for o in op.operands]
                tr.append((f"t{eid}", tuple(vals)))
                if len(tr) > MAX_EVENTS:
                    raise Invalid("trace too long")
                if op.results:
                    fa = op.attributes.get("f")
                    fv = fa.value.data if isinstance(fa, IntegerAttr) else 0
                    env[op.results[0]] = fv + sum((k + 1) * (v if isinstance(v, int) else 0) for k, v in enumerate(vals))
            elif isinstance(op, scf.ForOp):
                lb, ub, st = get(op.lb), get(op.ub), get(op.step)
                if st <= 0:
                    raise Invalid("scf.for with non-positive step")
                carried = [get(o) for o in op.iter_args]
                i = lb
                n = 0
                while i < ub:
                    for a, v in zip(op.body.block.args, [i] + carried):
                        env[a] = v
                    block(op.body.block)
                    y = op.body.block.last_op
                    carried = [get(o) for o in y.operands] if isinstance(y, scf.YieldOp) else []
                    i += st
                    n += 1
                    if n > MAX_EVENTS:
                        raise Invalid("too many iterations")
                for r, v in zip(op.results, carried):
                    env[r] = v
            elif isinstance(op, arith.CmpiOp):
                a, b = get(op.lhs), get(op.rhs)
                p = op.predicate.value.data
                if p not in range(6):   # eq ne slt sle sgt sge (unsigned predicates are not generated)
                    raise Invalid("unsigned arith.cmpi")
                env[op.result] = int([a == b, a != b, a < b, a <= b, a > b, a >= b][p])
            elif isinstance(op, arith.SelectOp):
                env[op.result] = get(op.lhs) if get(op.cond) else get(op.rhs)
            elif isinstance(op, arith.SubiOp):
                env[op.result] = get(op.lhs) - get(op.rhs)
            elif isinstance(op, arith.IndexCastOp):
                env[op.result] = get(op.input)
            elif isinstance(op, scf.IfOp):
                if op.results:
                    raise Invalid("scf.if with results")
                reg = op.true_region if get(op.cond) else op.false_region
                if reg.blocks:
                    block(reg.block)
            elif isinstance(op, (scf.YieldOp, func.ReturnOp)):
                pass
            else:
                raise Invalid(f"interpreter does not know {op.name}")

    block(f.body.block)
    return tr


def jval(v):
    return ["m", list(v)] if isinstance(v, tuple) else v


def static_invalid(f):
    """a constant step <= 0 anywhere (executed or not) puts the program outside scf.for's contract"""
    from xdsl.dialects import scf
    for op in f.walk():
        if isinstance(op, scf.ForOp):
            c = index_const(op.step)
            if c is not None and c <= 0:
                return "scf.for with a non-positive constant step"
    return None


def use_before_def(f):
    """True if some operand in the function is used where its definition does not dominate (straight-line regions)"""
    def block(b, scope):
        scope = set(scope) | set(b.args)
        for op in b.ops:
            for o in op.operands:
                if o not in scope:
                    return True
            for r in op.regions:
                for bb in r.blocks:
                    if block(bb, scope):
                        return True
            scope |= set(op.results)
        return False
    return block(f.body.block, set())


# clause checks on the REAL IR of a logged step (used to attribute an oracle failure to a known finding)
def existing_dim_in_loop(dim_op):
    """clause NoExistingDimMove evaluated on the REAL IR before a MoveMemrefDims step: the size the matched dim resolves to is
    an existing memref.dim that sits under another loop (the pattern detaches it and re-inserts it in front of this loop)"""
    from xdsl.dialects import memref, scf
    from xdsl.dialects.builtin import DYNAMIC_INDEX

    def parent_for(o):
        o = o.parent_op()
        while o is not None and not isinstance(o, scf.ForOp):
            o = o.parent_op()
        return o
    here = parent_for(dim_op)
    cur = dim_op
    for _ in range(64):
        if not isinstance(cur, memref.DimOp):
            return False
        sv = cur.source.owner
        idx = index_const(cur.index)
        if not isinstance(sv, memref.SubviewOp) or idx is None:
            return False
        st = list(sv.static_sizes.get_values())
        if not 0 <= idx < len(st) or st[idx] != DYNAMIC_INDEX:
            return False
        w = sv.sizes[sum(1 for x in st[:idx] if x == DYNAMIC_INDEX)].owner
        if not isinstance(w, memref.DimOp):
            return False
        if parent_for(w) is not here:
            return parent_for(w) is not None
        cur = w
    return False


def step_flags(name, mod_before, op, mod_after):
    from xdsl.dialects import affine, arith, memref, scf, test
    flags = {}
    if name == "MergeForLoops":
        parent = op.parent_op()
        others = [o for o in parent.body.block.ops if o is not op and not isinstance(o, scf.YieldOp)]
        pure = (arith.ConstantOp, arith.MuliOp, arith.AddiOp, arith.DivUIOp, arith.RemUIOp, memref.DimOp, memref.SubviewOp,
                memref.AllocOp, affine.MinOp, test.TestPureOp)
        flags["imperfect"] = any(not isinstance(o, pure) for o in others) or bool(len(op.iter_args)) or bool(len(parent.iter_args))
        u1, u2 = index_const(op.ub), index_const(parent.ub)
        flags["negbounds"] = u1 is not None and u2 is not None and (u1 < 0 or u2 < 0)
    if name == "MoveMemrefDims" and mod_after is not None:
        def used_mins(m):
            return sum(1 for o in m.walk() if isinstance(o, affine.MinOp) and any(True for _ in o.results[0].uses))
        flags["existing_in_loop"] = existing_dim_in_loop(op)
        # the pattern's own contract: every user of the matched dim is an alloc / subview. A step on a dim that also feeds another op
        # is outside it, whatever the size is: such a run is never attributed to a listed finding
        flags["mixed_users"] = isinstance(op, memref.DimOp) and any(
            not isinstance(u.operation, (memref.AllocOp, memref.SubviewOp)) for u in op.results[0].uses)
        flags["min_replaced"] = used_mins(mod_after) < used_mins(mod_before)
        flags["existing_moved"] = use_before_def(find_func(mod_after)) and not use_before_def(find_func(mod_before))
    return flags


# ------------------------------------------------------------------------------------------------------------------
# generators
# ------------------------------------------------------------------------------------------------------------------
IDX = "index"


class GenCanon:
    """loop nests for pipeline-canonicalize-for"""

    def __init__(self, r, perfect, special=None):
        self.r = r
        self.perfect = perfect
        self.special = special
        self.n = 0
        self.tags = 0

    def fresh(self, p="v"):
        self.n += 1
        return f"%{p}{self.n}"

    def tag(self):
        self.tags += 1
        return f't{self.tags}'

    def testop(self, ind, vals):
        k = self.r.randint(0, min(3, len(vals)))
        ops = self.r.sample(vals, k) if k else []
        if self.r.random() < 0.12:   # an op of an unregistered dialect: unknown effects, observable
            self.utags = getattr(self, "utags", 0) + 1
            name = self.r.choice(["accel.launch", "accel.await", "foo.bar", "foo.get"])
            return f'{ind}"{name}"({", ".join(ops)}) {{tag = "u{self.utags}"}} : ({", ".join([IDX] * len(ops))}) -> ()'
        return f'{ind}"test.op"({", ".join(ops)}) {{tag = "{self.tag()}"}} : ({", ".join([IDX] * len(ops))}) -> ()'

    def pureop(self, ind, vals, out):
        a, b = self.r.choice(vals), self.r.choice(vals)
        v = self.fresh()
        kind = self.r.choice(["arith.addi", "arith.muli", "arith.addi", "pure"])
        if kind == "pure":
            out.append(f'{ind}{v} = "test.pureop"({a}, {b}) {{f = {self.r.randint(0, 9)} : i64}} : (index, index) -> index')
        else:
            out.append(f"{ind}{v} = {kind} {a}, {b} : index")
        return v

    def const(self, ind, c, out):
        v = self.fresh("k")
        out.append(f"{ind}{v} = arith.constant {c} : index")
        return v

    def bound(self, ind, out, what):
        r = self.r
        if what == "lb":
            x = r.random()
            c = 0 if x < 0.8 else r.choice([1, 2, 3])
            if x > 0.95:
                return "%n0"
        elif what == "ub":
            if r.random() < 0.12:
                return "%n1"
            c = r.choice([0, 1, 2, 3, 4, 5, 6, 7, 8, 9, 10, 11, 12, 2, 3, 4, 5, 7])
            if self.special == "neg":
                c = r.choice([-3, -2, -1, 2])
        else:
            if r.random() < 0.08:
                return "%s0"
            c = r.choice([1, 1, 1, 2, 2, 3, 3, 4, 5])
            if self.special == "step0" and r.random() < 0.5:
                c = r.choice([0, -1])
        if self.special == "odd" and r.random() < 0.35 and c >= 0:
            # a bound that is the result of an op, not of an arith.constant (extract_cst_index: second `return None`)
            v = self.fresh("b")
            x = r.randint(0, c)
            out.append(f"{ind}{v} = arith.addi %c{x}, %c{c - x} : index")
            return v
        if r.random() < 0.2:
            return self.const(ind, c, out)
        return f"%c{c}" if c >= 0 else f"%cm{-c}"

    def loop_i32(self, ind):
        """a loop over i32 (constant bounds of a non-index type: extract_cst_index's third `return None`)"""
        r = self.r
        l, u, st, iv = self.fresh("l"), self.fresh("u"), self.fresh("s"), self.fresh("i")
        out = [f"{ind}{l} = arith.constant 0 : i32", f"{ind}{u} = arith.constant {r.randint(0, 9)} : i32",
               f"{ind}{st} = arith.constant {r.choice([1, 2, 3])} : i32",
               f"{ind}scf.for {iv} = {l} to {u} step {st} : i32 {{",
               f'{ind}  "test.op"({iv}) {{tag = "{self.tag()}"}} : (i32) -> ()', f"{ind}}}"]
        return out

    def loop(self, depth, ind, vals):
        r = self.r
        if self.special == "odd" and r.random() < 0.25:
            return self.loop_i32(ind)
        out = []
        lb, ub, st = (self.bound(ind, out, w) for w in ("lb", "ub", "st"))
        iv = self.fresh("i")
        body = []
        bind = ind + "  "
        vs = vals + [iv]
        if self.special == "iter" and r.random() < 0.6:
            acc = self.fresh("acc")
            res = self.fresh("r")
            inner = []
            if depth > 0:
                inner += self.loop(depth - 1, bind, vs)
            inner.append(self.testop(bind, vs + [acc]))
            nxt = self.fresh()
            inner.append(f"{bind}{nxt} = arith.addi {acc}, {iv} : index")
            inner.append(f"{bind}scf.yield {nxt} : index")
            return out + [f"{ind}{res} = scf.for {iv} = {lb} to {ub} step {st} iter_args({acc} = {lb}) -> (index) {{"] + inner + [f"{ind}}}"]
        if depth > 0 and r.random() < 0.85:
            if self.perfect:
                for _ in range(r.choice([0, 0, 1])):
                    vs.append(self.pureop(bind, vs, body))
                body += self.loop(depth - 1, bind, vs)
                for _ in range(r.choice([0, 0, 0, 1])):
                    self.pureop(bind, vs, body)
            else:
                for _ in range(r.choice([0, 0, 1, 2])):
                    if r.random() < 0.5:
                        body.append(self.testop(bind, vs))
                    else:
                        vs.append(self.pureop(bind, vs, body))
                body += self.loop(depth - 1, bind, vs)
                if r.random() < 0.2:
                    body += self.loop(depth - 1, bind, vs)
                for _ in range(r.choice([0, 0, 1])):
                    body.append(self.testop(bind, vs))
        else:
            for _ in range(r.choice([1, 1, 2, 3])):
                if r.random() < 0.35:
                    vs.append(self.pureop(bind, vs, body))
                else:
                    body.append(self.testop(bind, vs))
            if not any("test.op" in l for l in body):
                body.append(self.testop(bind, vs))
        return out + [f"{ind}scf.for {iv} = {lb} to {ub} step {st} {{"] + body + [f"{ind}}}"]

    def prog(self):
        cs = [f"  %c{k} = arith.constant {k} : index" for k in range(13)] + \
             [f"  %cm{k} = arith.constant -{k} : index" for k in (1, 2, 3)]
        body = []
        for _ in range(self.r.choice([1, 1, 1, 2])):
            body += self.loop(self.r.choice([0, 1, 1, 2, 2]), "  ", ["%n0", "%n1"])
        if self.r.random() < 0.3:
            body.append(self.testop("  ", ["%n0", "%n1"]))
        return "func.func @f(%n0 : index, %n1 : index, %s0 : index) {\n" + "\n".join(cs + body) + "\n  func.return\n}\n"

    def envs(self):
        r = self.r
        return [[r.randint(0, 3), r.randint(0, 12), r.randint(1, 4)] for _ in range(3)]


M0 = "memref<?x?xi8>"
M1 = "memref<?x?xi32>"
M2 = "memref<?x?x?xi16>"


def rank_of(ty):
    """rank of a memref type string `memref<AxBx...xT, ...>`"""
    return len(ty[len("memref<"):].split(",")[0].split("x")) - 1


class GenReuse:
    """loop nests with allocations, memref.dim, subviews and affine.min for reuse-memref-allocs"""

    def __init__(self, r, minfirst_nonconst=False, chain_bias=0.12, multi_bias=0.1, unreg_bias=0.08, idxc_bias=0.2, if_bias=0.0, mixed_bias=0.4):
        self.r = r
        self.n = 0
        self.tags = 0
        self.bad_min = minfirst_nonconst
        self.chain_bias = chain_bias
        self.multi_bias = multi_bias
        self.unreg_bias = unreg_bias
        self.idxc_bias = idxc_bias
        self.if_bias = if_bias
        self.mixed_bias = mixed_bias

    def fresh(self, p="v"):
        self.n += 1
        return f"%{p}{self.n}"

    def tag(self):
        self.tags += 1
        return f't{self.tags}'

    def pick_idx(self, vals, prefer=None):
        """an index-typed value; vals = list of (name, type, origin)"""
        c = [v for v in vals if v[1] == IDX and (prefer is None or v[2] in prefer)]
        if not c:
            c = [v for v in vals if v[1] == IDX]
        return self.r.choice(c)[0]

    def idxc(self, ind, vals, out, k):
        """the index operand of a memref.dim: the function-level constant %ck, or an `arith.constant k` defined right here /
        earlier in this or an enclosing loop body (MoveMemrefDims re-uses that constant op for the dim it rebuilds in front of
        the loop and relies on LoopHoistPureOperations having moved it out first)"""
        r = self.r
        local = [v for v in vals if v[2] == f"idxc{k}"]
        x = r.random()
        if local and x < self.idxc_bias:
            return r.choice(local)[0]
        if x < self.idxc_bias * 1.6:
            v = self.fresh("x")
            out.append(f"{ind}{v} = arith.constant {k} : index")
            vals.append((v, IDX, f"idxc{k}"))
            return v
        return f"%c{k}"

    def unreg(self, ind, vals, out):
        """an op of an unregistered dialect (`--allow-unregistered-dialect`): nothing is known about its effects"""
        r = self.r
        self.utags = getattr(self, "utags", 0) + 1
        how = r.choice(["none", "none", "outer", "outer", "outer", "any"])
        if how == "none":
            ops = []
        elif how == "outer":   # results of ops defined outside every loop (top-level constants)
            ops = r.sample(["%c0", "%c1", "%c2", "%c3", "%c4"], r.randint(1, 2))
        else:
            ops = [self.pick_idx(vals, prefer=r.choice([["iv"], ["arith"], ["const"], None])) for _ in range(r.randint(1, 2))]
        tys = ", ".join([IDX] * len(ops))
        if r.random() < 0.35:
            v = self.fresh("u")
            name = r.choice(["accel.cfg", "foo.get", "foo.pure_looking"])
            out.append(f'{ind}{v} = "{name}"({", ".join(ops)}) {{tag = "u{self.utags}", f = {r.randint(0, 9)} : i64}} : ({tys}) -> index')
            vals.append((v, IDX, "arith"))
        else:
            name = r.choice(["accel.launch", "accel.await", "foo.bar"])
            out.append(f'{ind}"{name}"({", ".join(ops)}) {{tag = "u{self.utags}"}} : ({tys}) -> ()')

    def item(self, ind, vals, out, depth):
        r = self.r
        if r.random() < self.unreg_bias:
            return self.unreg(ind, vals, out)
        k = r.choice(["const", "arith", "arith", "dim", "dim", "dim", "min", "subview", "subview", "alloc", "alloc", "test",
                      "test", "pure"])
        mems = [v for v in vals if v[1] != IDX]
        if r.random() < self.chain_bias:
            return self.chain(ind, vals, out)
        if r.random() < self.multi_bias:
            return self.multidim(ind, vals, out)
        if r.random() < 0.22:
            return self.cluster(ind, vals, out)
        if k == "const":
            v = self.fresh("k")
            out.append(f"{ind}{v} = arith.constant {r.choice([0, 1, 2, 4, 8])} : index")
            vals.append((v, IDX, "const"))
        elif k == "arith":
            v = self.fresh()
            nd = None if r.random() < 0.1 else ["const", "arith", "iv", "arg", "min"]
            a, b = self.pick_idx(vals, prefer=nd), self.pick_idx(vals, prefer=nd)
            out.append(f"{ind}{v} = {r.choice(['arith.addi', 'arith.muli'])} {a}, {b} : index")
            vals.append((v, IDX, "arith"))
        elif k == "pure":
            v = self.fresh()
            a = self.pick_idx(vals, prefer=["const", "arith", "iv", "arg", "min"])
            out.append(f'{ind}{v} = "test.pureop"({a}) {{f = {r.randint(0, 9)} : i64}} : (index) -> index')
            vals.append((v, IDX, "arith"))
        elif k == "dim":
            m = r.choice(mems)
            v = self.fresh("d")
            idx = self.idxc(ind, vals, out, r.randrange(rank_of(m[1])))
            out.append(f'{ind}{v} = "memref.dim"({m[0]}, {idx}) : ({m[1]}, index) -> index')
            vals.append((v, IDX, "dim"))
        elif k == "min":
            v = self.fresh("mn")
            a, b = self.pick_idx(vals), self.pick_idx(vals)
            c = r.choice([4, 8])
            if self.bad_min and r.random() < 0.5:
                mp = f"affine_map<(d0)[s0] -> (((d0 * -1) + s0), {c})>"
            else:
                mp = f"affine_map<(d0)[s0] -> ({c}, ((d0 * -1) + s0))>"
            out.append(f'{ind}{v} = "affine.min"({a}, {b}) <{{map = {mp}}}> : (index, index) -> index')
            vals.append((v, IDX, "min"))
        elif k == "subview":
            src = r.choice([v for v in mems if v[2] == "arg"])
            el = "i8" if src[1] == M0 else "i32"
            sizes, shape = [], []
            for _ in range(2):
                if r.random() < 0.25:
                    c = r.choice([2, 4, 8])
                    sizes.append(str(c))
                    shape.append(str(c))
                else:
                    sizes.append(self.pick_idx(vals, prefer=r.choice([["dim"], ["min"], ["const"], ["dim", "min", "const"], None])))
                    shape.append("?")
            offs = [self.pick_idx(vals, prefer=["iv", "const"]) for _ in range(2)]
            ty = f"memref<{shape[0]}x{shape[1]}x{el}, strided<[?, 1], offset: ?>>"
            v = self.fresh("sv")
            out.append(f"{ind}{v} = memref.subview {src[0]}[{offs[0]}, {offs[1]}] [{sizes[0]}, {sizes[1]}] [1, 1] : {src[1]} to {ty}")
            vals.append((v, ty, "subview"))
        elif k == "alloc":
            dyn, shape = [], []
            for _ in range(2):
                if r.random() < 0.25:
                    shape.append(str(r.choice([2, 4, 8])))
                else:
                    dyn.append(self.pick_idx(vals, prefer=r.choice([["dim"], ["dim", "const"], ["min"], ["arith"], None])))
                    shape.append("?")
            ty = f"memref<{shape[0]}x{shape[1]}xi8>"
            v = self.fresh("a")
            out.append(f"{ind}{v} = memref.alloc({', '.join(dyn)}) : {ty}")
            vals.append((v, ty, "alloc"))
        else:
            cands = [v for v in vals if v[2] not in ("dim",) or r.random() < 0.1]
            ops = r.sample(cands, min(len(cands), r.randint(1, 3)))
            out.append(f'{ind}"test.op"({", ".join(o[0] for o in ops)}) {{tag = "{self.tag()}"}} : ({", ".join(o[1] for o in ops)}) -> ()')

    def cluster(self, ind, vals, out):
        """dim of a subview whose sizes come from a constant / affine.min / dim / induction variable, feeding an alloc
        (the shapes of upstream streamer_matmul_6 / _7)"""
        r = self.r
        src = r.choice([v for v in vals if v[2] == "arg" and v[1] != IDX])
        el = "i8" if src[1] == M0 else "i32"
        sizes, shape = [], []
        min_slots = []
        for slot in range(2):
            how = r.choice(["static", "const", "min", "min", "dim", "dim", "iv", "any"])
            if how == "static":
                c = r.choice([2, 4, 8])
                sizes.append(str(c))
                shape.append(str(c))
                continue
            shape.append("?")
            if how == "min":
                min_slots.append(slot)
                v = self.fresh("mn")
                a = self.pick_idx(vals, prefer=["iv", "arith"])
                b = self.pick_idx(vals, prefer=["arg", "const"])
                c = r.choice([2, 4, 8])
                if self.bad_min and r.random() < 0.5:
                    mp = f"affine_map<(d0)[s0] -> (((d0 * -1) + s0), {c})>"
                else:
                    mp = f"affine_map<(d0)[s0] -> ({c}, ((d0 * -1) + s0))>"
                out.append(f'{ind}{v} = "affine.min"({a}, {b}) <{{map = {mp}}}> : (index, index) -> index')
                vals.append((v, IDX, "min"))
                sizes.append(v)
            elif how == "dim" and r.random() < 0.6:
                v = self.fresh("d")
                m = r.choice([x for x in vals if x[1] != IDX])
                ix_ = self.idxc(ind, vals, out, r.randrange(2))
                out.append(f'{ind}{v} = "memref.dim"({m[0]}, {ix_}) : ({m[1]}, index) -> index')
                vals.append((v, IDX, "dim"))
                sizes.append(v)
            else:
                sizes.append(self.pick_idx(vals, prefer={"const": ["const"], "dim": ["dim"], "iv": ["iv"], "any": None}[how]))
        offs = [self.pick_idx(vals, prefer=["iv", "const"]) for _ in range(2)]
        ty = f"memref<{shape[0]}x{shape[1]}x{el}, strided<[?, 1], offset: ?>>"
        sv = self.fresh("sv")
        out.append(f"{ind}{sv} = memref.subview {src[0]}[{offs[0]}, {offs[1]}] [{sizes[0]}, {sizes[1]}] [1, 1] : {src[1]} to {ty}")
        vals.append((sv, ty, "subview"))
        if r.random() < 0.6:
            out.append(f'{ind}"test.op"({sv}) {{tag = "{self.tag()}"}} : ({ty}) -> ()')
        d = self.fresh("d")
        # the queried dimension is mostly the partial-tile one (sized by the affine.min) when there is one
        ix_ = self.idxc(ind, vals, out, r.choice(min_slots) if min_slots and r.random() < 0.7 else r.randrange(2))
        out.append(f'{ind}{d} = "memref.dim"({sv}, {ix_}) : ({ty}, index) -> index')
        vals.append((d, IDX, "dim"))
        other = self.pick_idx(vals, prefer=r.choice([["dim"], ["const"], ["min"], None]))
        a = self.fresh("a")
        out.append(f"{ind}{a} = memref.alloc({d}, {other}) : memref<?x?xi8>")
        vals.append((a, "memref<?x?xi8>", "alloc"))
        if r.random() < 0.6:
            out.append(f'{ind}"test.op"({a}) {{tag = "{self.tag()}"}} : (memref<?x?xi8>) -> ()')
        if r.random() < self.mixed_bias:
            # MIXED users: the dim sizes the alloc above AND feeds another op (a side-effecting op, or index arithmetic that one
            # observes): MoveMemrefDims must leave such a dim alone (`used_by_neither_alloc_nor_subview`)
            if r.random() < 0.6:
                out.append(f'{ind}"test.op"({d}) {{tag = "{self.tag()}"}} : (index) -> ()')
            else:
                v = self.fresh()
                out.append(f"{ind}{v} = arith.addi {d}, {self.pick_idx(vals, prefer=['iv', 'const'])} : index")
                vals.append((v, IDX, "arith"))
                out.append(f'{ind}"test.op"({v}) {{tag = "{self.tag()}"}} : (index) -> ()')

    def multidim(self, ind, vals, out):
        """several `memref.dim` ops with different indices (in any order, repeats allowed) on the SAME subview whose static
        sizes are pairwise different (non-square tile), possibly mixed with dynamic sizes and with dims of function
        arguments; the dims feed only allocs / subviews, whose shapes a side-effecting op observes."""
        r = self.r
        src = r.choice([v for v in vals if v[1] != IDX and v[2] in ("arg", "arg3")])
        rk = rank_of(src[1])
        statics = r.sample([2, 3, 4, 6, 8, 16], rk)
        n_dyn = r.choice([0, 0, 0, 1]) if rk == 2 else r.choice([0, 0, 1])
        dyn_at = set(r.sample(range(rk), n_dyn))
        sizes, shape = [], []
        for k in range(rk):
            if k in dyn_at:
                how = r.choice(["const", "argdim", "arg"])
                if how == "argdim":
                    m = r.choice([v for v in vals if v[1] != IDX and v[2] in ("arg", "arg3")])
                    d = self.fresh("d")
                    ix_ = self.idxc(ind, vals, out, r.randrange(rank_of(m[1])))
                    out.append(f'{ind}{d} = "memref.dim"({m[0]}, {ix_}) : ({m[1]}, index) -> index')
                    vals.append((d, IDX, "dim"))
                    sizes.append(d)
                else:
                    sizes.append(self.pick_idx(vals, prefer=[how]))
                shape.append("?")
            else:
                sizes.append(str(statics[k]))
                shape.append(str(statics[k]))
        el = src[1][len("memref<"):].split(",")[0].split("x")[-1].rstrip(">")
        offs = [self.pick_idx(vals, prefer=["iv", "const"]) for _ in range(rk)]
        ty = f"memref<{'x'.join(shape)}x{el}, strided<[{', '.join(['?'] * (rk - 1) + ['1'])}], offset: ?>>"
        sv = self.fresh("sv")
        out.append(f"{ind}{sv} = memref.subview {src[0]}[{', '.join(offs)}] [{', '.join(sizes)}] [{', '.join(['1'] * rk)}] : "
                   f"{src[1]} to {ty}")
        vals.append((sv, ty, "subview"))
        if r.random() < 0.5:
            out.append(f'{ind}"test.op"({sv}) {{tag = "{self.tag()}"}} : ({ty}) -> ()')
        order = list(range(rk))
        r.shuffle(order)                       # both / all orders of the queried indices
        if r.random() < 0.3:
            order.append(r.randrange(rk))      # a repeated query
        qs = []
        for a in order:
            q = self.fresh("d")
            ix_ = self.idxc(ind, vals, out, a)
            out.append(f'{ind}{q} = "memref.dim"({sv}, {ix_}) : ({ty}, index) -> index')
            vals.append((q, IDX, "dim"))
            qs.append(q)
            if r.random() < 0.15:              # something unrelated in between
                v = self.fresh("k")
                out.append(f"{ind}{v} = arith.constant {r.choice([1, 2, 4])} : index")
                vals.append((v, IDX, "const"))
        if r.random() < 0.3:                   # a dim of a function argument next to them
            m = r.choice([v for v in vals if v[1] != IDX and v[2] in ("arg", "arg3")])
            q = self.fresh("d")
            ix_ = self.idxc(ind, vals, out, r.randrange(rank_of(m[1])))
            out.append(f'{ind}{q} = "memref.dim"({m[0]}, {ix_}) : ({m[1]}, index) -> index')
            vals.append((q, IDX, "dim"))
            qs.append(q)
        for _ in range(r.choice([1, 1, 2])):
            al = self.fresh("a")
            if len(qs) >= 2 and r.random() < 0.8:
                x, y = r.sample(qs, 2)
                out.append(f"{ind}{al} = memref.alloc({x}, {y}) : memref<?x?xi8>")
                aty = "memref<?x?xi8>"
            else:
                out.append(f"{ind}{al} = memref.alloc({r.choice(qs)}) : memref<?xi8>")
                aty = "memref<?xi8>"
            vals.append((al, aty, "alloc"))
            out.append(f'{ind}"test.op"({al}) {{tag = "{self.tag()}"}} : ({aty}) -> ()')
        if r.random() < 0.3:                   # the dims as sizes of another subview
            x, y = (r.sample(qs, 2) if len(qs) >= 2 else (qs[0], qs[0]))
            s2 = r.choice([v for v in vals if v[1] in (M0, M1)])
            e2 = "i8" if s2[1] == M0 else "i32"
            t2 = f"memref<?x?x{e2}, strided<[?, 1], offset: ?>>"
            v = self.fresh("sv")
            out.append(f"{ind}{v} = memref.subview {s2[0]}[%c0, %c0] [{x}, {y}] [1, 1] : {s2[1]} to {t2}")
            vals.append((v, t2, "subview"))
            out.append(f'{ind}"test.op"({v}) {{tag = "{self.tag()}"}} : ({t2}) -> ()')

    def chain(self, ind, vals, out):
        """`%q = memref.dim %sv, a` feeding only an alloc, where the size of %sv at position a is the dynamic operand
        `%d = memref.dim %m, b` (a != b mostly; %d usually kept inside the loop by a side-effecting / arith user), on 2-D and
        3-D memrefs: MoveMemrefDims resolves %q recursively through the subview size to a new `memref.dim %m, b`."""
        r = self.r
        margs = [v for v in vals if v[1] != IDX and v[2] in ("arg", "arg3")]
        m = r.choice(margs)                      # the memref whose extent is queried (inner dim)
        src = r.choice(margs)                    # the memref the subview is taken of
        rk = rank_of(src[1])
        a = r.randrange(rk)
        bs = [k for k in range(rank_of(m[1])) if k != a] if r.random() < 0.85 else list(range(rank_of(m[1])))
        b = r.choice(bs)
        d = self.fresh("d")
        ix_ = self.idxc(ind, vals, out, b)
        out.append(f'{ind}{d} = "memref.dim"({m[0]}, {ix_}) : ({m[1]}, index) -> index')
        vals.append((d, IDX, "dim"))
        keep = r.random()
        if keep < 0.55:
            out.append(f'{ind}"test.op"({d}) {{tag = "{self.tag()}"}} : (index) -> ()')
        elif keep < 0.8:
            v = self.fresh()
            out.append(f"{ind}{v} = arith.addi {d}, {self.pick_idx(vals, prefer=['iv', 'const'])} : index")
            vals.append((v, IDX, "arith"))
            out.append(f'{ind}"test.op"({v}) {{tag = "{self.tag()}"}} : (index) -> ()')
        sizes, shape = [], []
        for k in range(rk):
            if k == a:
                sizes.append(d)
                shape.append("?")
            elif r.random() < 0.5:
                c = r.choice([2, 4, 8])
                sizes.append(str(c))
                shape.append(str(c))
            else:
                sizes.append(self.pick_idx(vals, prefer=r.choice([["const"], ["dim"], ["arg"], None])))
                shape.append("?")
        el = src[1][len("memref<"):].split(",")[0].split("x")[-1].rstrip(">")
        offs = [self.pick_idx(vals, prefer=["iv", "const"]) for _ in range(rk)]
        ty = f"memref<{'x'.join(shape)}x{el}, strided<[{', '.join(['?'] * (rk - 1) + ['1'])}], offset: ?>>"
        sv = self.fresh("sv")
        out.append(f"{ind}{sv} = memref.subview {src[0]}[{', '.join(offs)}] [{', '.join(sizes)}] [{', '.join(['1'] * rk)}] : "
                   f"{src[1]} to {ty}")
        vals.append((sv, ty, "subview"))
        if r.random() < 0.5:
            out.append(f'{ind}"test.op"({sv}) {{tag = "{self.tag()}"}} : ({ty}) -> ()')
        q = self.fresh("d")
        ix_ = self.idxc(ind, vals, out, a)
        out.append(f'{ind}{q} = "memref.dim"({sv}, {ix_}) : ({ty}, index) -> index')
        vals.append((q, IDX, "dim"))
        al = self.fresh("a")
        if r.random() < 0.5:
            out.append(f"{ind}{al} = memref.alloc({q}) : memref<?xi8>")
            aty = "memref<?xi8>"
        else:
            out.append(f"{ind}{al} = memref.alloc({q}, {self.pick_idx(vals, prefer=['const', 'dim'])}) : memref<?x?xi8>")
            aty = "memref<?x?xi8>"
        vals.append((al, aty, "alloc"))
        out.append(f'{ind}"test.op"({al}) {{tag = "{self.tag()}"}} : ({aty}) -> ()')

    def loop(self, depth, ind, vals):
        r = self.r
        iv = self.fresh("i")
        lb = r.choice(["%c0", "%c0", "%c1"])
        ub = r.choice(["%c0", "%c1", "%c2", "%c3", "%c4", "%n0"])
        st = r.choice(["%c1", "%c1", "%c2"])
        body = []
        vs = list(vals) + [(iv, IDX, "iv")]
        bind = ind + "  "
        n_items = r.randint(1, 4)
        inner_at = r.randint(0, n_items) if depth > 0 and r.random() < 0.8 else -1
        for k in range(n_items + 1):
            if k == inner_at:
                if r.random() < self.if_bias:   # the inner loop under a condition: its parent op is not the outer scf.for
                    c = self.fresh("p")
                    body.append(f"{bind}{c} = arith.cmpi {r.choice(['slt', 'sge', 'ne', 'eq'])}, {iv}, {r.choice(['%c0', '%c1', '%c2'])} : index")
                    body.append(f"{bind}scf.if {c} {{")
                    body += self.loop(depth - 1, bind + "  ", vs)
                    body.append(f"{bind}}}")
                else:
                    body += self.loop(depth - 1, bind, vs)
            if k < n_items:
                if r.random() < self.if_bias:
                    # operations under a condition inside the loop (find_parent_for_loop looks through the scf.if), sometimes with
                    # an else branch; a value behind arith.select / arith.index_cast first
                    c = self.fresh("p")
                    body.append(f"{bind}{c} = arith.cmpi {r.choice(['slt', 'sge', 'ne', 'eq'])}, {iv}, {r.choice(['%c0', '%c1', '%c2'])} : index")
                    if r.random() < 0.5:
                        v = self.fresh()
                        body.append(f"{bind}{v} = arith.select {c}, {self.pick_idx(vs)}, {self.pick_idx(vs)} : index")
                        vs.append((v, IDX, "arith"))
                    inner = list(vs)
                    body.append(f"{bind}scf.if {c} {{")
                    # no op of an unregistered dialect directly in an scf.if region: xDSL prints the region without its empty
                    # scf.yield and, on re-parsing, takes a trailing unregistered op for the terminator (a printer/parser artefact
                    # of the harness round trip, not of the pass)
                    keep, self.unreg_bias = self.unreg_bias, 0.0
                    for _ in range(r.randint(1, 3)):
                        self.item(bind + "  ", inner, body, depth)
                    if r.random() < 0.3:
                        body.append(f"{bind}}} else {{")
                        inner = list(vs)
                        for _ in range(r.randint(1, 2)):
                            self.item(bind + "  ", inner, body, depth)
                    self.unreg_bias = keep
                    body.append(f"{bind}}}")
                else:
                    self.item(bind, vs, body, depth)
        return [f"{ind}scf.for {iv} = {lb} to {ub} step {st} {{"] + body + [f"{ind}}}"]

    def prog(self):
        r = self.r
        cs = [f"  %c{k} = arith.constant {k} : index" for k in range(5)]
        vals = [("%m0", M0, "arg"), ("%m1", M1, "arg"), ("%n0", IDX, "arg"), ("%n1", IDX, "arg"), ("%m2", M2, "arg3")] + \
               [(f"%c{k}", IDX, "const") for k in (2, 4)]
        body = []
        for _ in range(r.choice([0, 1, 2])):
            self.item("  ", vals, body, 0)
        body += self.loop(r.choice([0, 1, 1, 2]), "  ", vals)
        if r.random() < 0.3:
            self.item("  ", vals, body, 0)
        return (f"func.func @f(%m0 : {M0}, %m1 : {M1}, %n0 : index, %n1 : index, %m2 : {M2}) {{\n" + "\n".join(cs + body)
                + "\n  func.return\n}\n")

    def envs(self):
        """every dimension of every memref argument gets its own extent (a wrong dimension index is visible in the trace)"""
        r = self.r
        out = []
        for _ in range(3):
            ext = r.sample(range(1, 16), 7)
            out.append([ext[0:2], ext[2:4], r.randint(0, 4), r.randint(0, 12), ext[4:7]])
        return out


STEP_TEMPLATE = """func.func @f(%n0 : index, %n1 : index, %s0 : index) {{
  %lb = arith.constant 0 : index
  %ub = arith.constant {ub} : index
  %st = arith.constant {st} : index
  scf.for %i = %lb to %ub step %st {{
    "test.op"(%i) {{tag = "t1"}} : (index) -> ()
  }}
  func.return
}}
"""

NEST_TEMPLATE = """func.func @f(%n0 : index, %n1 : index, %s0 : index) {{
  %lb = arith.constant 0 : index
  %u1 = arith.constant {u1} : index
  %u2 = arith.constant {u2} : index
  %s1 = arith.constant {s1} : index
  %s2 = arith.constant {s2} : index
  scf.for %i = %lb to %u1 step %s1 {{
    scf.for %j = %lb to %u2 step %s2 {{
      "test.op"(%i, %j) {{tag = "t1"}} : (index, index) -> ()
    }}
  }}
  func.return
}}
"""

CANON = "pipeline-canonicalize-for"
REUSE = "reuse-memref-allocs"


class C17(Prop):
    id = "C17"
    PARALLEL = True
    USES_IMPL = True
    CASE_TIMEOUT = 150
    exhaustive_thorough = True
    rule = ("generated loop nests (depth <= 3, constant/dynamic bounds and steps, ub not a multiple of step, test.op / pure ops anywhere, "
            "allocs / memref.dim / subviews / affine.min depending or not on induction variables, 2-D/3-D memrefs with a distinct extent per dimension, dim-of-subview chains through a memref.dim size with a different index); every individual rewrite of the "
            "greedy driver is replayed through the model rule; non-trivial = the pass performed at least one non-DCE rewrite")
    trusted_base = [
        "modelled: ChangeForStep (with F03), MergeForLoops, LoopHoistPureOperations, MoveMemrefDims and the driver's dead-code step as "
        "functions on a loop IR (Model/Loops.lean); the greedy driver's order is not modelled: every real rewrite step is replayed "
        "through the model rule and must reproduce the real result up to SSA renaming",
        "converter real IR -> loop IR (harness/props/c17.py): index constants become literal operands; op kinds, Pure/NoMemoryEffect "
        "tables are in the model; the model's trace semantics is compared with the oracle's interpreter on every generated program",
    ]
    assumptions = [
        "index arithmetic is unbounded (no 64-bit wrap-around); arith.divui/remui modelled on non-negative operands",
        "scf.for steps are positive (the dialect's contract); programs are in SSA form (checked by the model rules as side conditions)",
        "memref.alloc is not an observable event by itself (hoisting it is the purpose of the pass); its size values are observed by "
        "the side-effecting consumers of the buffer",
        "MoveMemrefDims: the whole-program rule is replayed step by step; the theorems proved are the value lemma and the "
        "replace-all-uses lemma, not a whole-program theorem for the pattern",
    ]

    # -- generators ----------------------------------------------------------------------------------------------
    PLAIN = ("canon-perfect", "canon-any", "reuse", "reuse-chain", "reuse-multidim", "reuse-unreg", "reuse+canon")

    def cases(self, rng, tier):
        """every third plain case also carries another function (`other`, the previous program of the same pipeline, renamed @g):
        the oracle then runs the pipeline on the modules [g, f] and [f, g] and requires the rewritten f to be what it is alone
        (the patterns are instantiated once per pass run: nothing may survive from one function to the next)"""
        prev = {}
        k = 0
        for c in self._gen(rng, tier):
            if c["kind"] in self.PLAIN:
                k += 1
                if k % 3 == 0 and c["pass"] in prev:
                    c = dict(c, other=prev[c["pass"]])
                prev[c["pass"]] = c["src"].replace("@f(", "@g(")
            yield c

    def _gen(self, rng, tier):
        n = 150 if tier == "quick" else 3000
        for i in range(n):
            r = random.Random(rng.getrandbits(48))
            x = i % 10
            if x < 4:
                g = GenCanon(r, perfect=True)
                yield {"kind": "canon-perfect", "pass": CANON, "src": g.prog(), "envs": g.envs()}
            elif x < 6:
                g = GenCanon(r, perfect=False)
                yield {"kind": "canon-any", "pass": CANON, "src": g.prog(), "envs": g.envs()}
            elif x < 8:
                g = GenReuse(r)
                yield {"kind": "reuse", "pass": REUSE, "src": g.prog(), "envs": g.envs()}
            elif x < 9:
                if i % 20 < 10:
                    g = GenReuse(r, chain_bias=0.5)
                    yield {"kind": "reuse-chain", "pass": REUSE, "src": g.prog(), "envs": g.envs()}
                else:
                    g = GenReuse(r, multi_bias=0.5)
                    yield {"kind": "reuse-multidim", "pass": REUSE, "src": g.prog(), "envs": g.envs()}
            else:
                sp = r.choice(["neg", "step0", "iter", "badmin", "odd", "unreg", "unreg", "both", "both", "ifs", "ifs"])
                if sp == "ifs":
                    # scf.if / arith.select inside the loops (not modelled: executed by the oracle only), one or both passes
                    g = GenReuse(r, if_bias=0.35, unreg_bias=0.12)
                    yield {"kind": "reuse-ifs", "pass": r.choice([REUSE, REUSE, REUSE + "," + CANON]), "src": g.prog(), "envs": g.envs()}
                elif sp == "both":
                    # the two passes one after the other, in the order of the real pipeline (interaction / ordering faults)
                    g = GenReuse(r, idxc_bias=0.35)
                    yield {"kind": "reuse+canon", "pass": REUSE + "," + CANON, "src": g.prog(), "envs": g.envs()}
                elif sp == "unreg":
                    g = GenReuse(r, unreg_bias=0.4)
                    yield {"kind": "reuse-unreg", "pass": REUSE, "src": g.prog(), "envs": g.envs()}
                elif sp == "badmin":
                    g = GenReuse(r, minfirst_nonconst=True)
                    yield {"kind": "reuse-badmin", "pass": REUSE, "src": g.prog(), "envs": g.envs()}
                else:
                    g = GenCanon(r, perfect=r.random() < 0.7, special=sp)
                    yield {"kind": "canon-" + sp, "pass": CANON, "src": g.prog(), "envs": g.envs()}
        # named small spaces
        ubs = range(0, 13) if tier == "thorough" else (0, 1, 5, 7, 10, 12)
        sts = range(1, 6) if tier == "thorough" else (2, 3, 5)
        for ub in ubs:
            for st in sts:
                yield {"kind": "step-exh", "pass": CANON, "src": STEP_TEMPLATE.format(ub=ub, st=st), "envs": [[0, 0, 1]]}
        if tier == "thorough":
            for u1 in range(0, 8):
                for u2 in range(0, 8):
                    for s1 in (1, 2, 3):
                        for s2 in (1, 2, 3):
                            yield {"kind": "nest-exh", "pass": CANON, "src": NEST_TEMPLATE.format(u1=u1, u2=u2, s1=s1, s2=s2),
                                   "envs": [[0, 0, 1]]}
        else:
            for (u1, u2, s1, s2) in [(3, 4, 1, 1), (7, 5, 2, 3), (0, 4, 2, 1), (10, 10, 2, 2), (5, 0, 1, 3), (1, 1, 1, 1)]:
                yield {"kind": "nest-exh", "pass": CANON, "src": NEST_TEMPLATE.format(u1=u1, u2=u2, s1=s1, s2=s2), "envs": [[0, 0, 1]]}

    # -- the real code -------------------------------------------------------------------------------------------
    def impl(self, case):
        src = case["src"]
        try:
            mod0 = snaxrun.parse(src)
            mod0.verify()
            f0 = find_func(mod0)
        except CaseTimeout:
            raise
        except Exception as e:
            return {"invalid_input": type(e).__name__}
        out = {"steps": [], "raised": None, "chain_ok": True}
        inv = static_invalid(f0)
        traces0 = []
        try:
            for env in case["envs"]:
                traces0.append([[t, [jval(v) for v in vs]] for t, vs in run_func(f0, env)])
        except (Invalid, Undefined) as e:
            inv = inv or str(e)
        if inv:
            out["invalid_input"] = inv
        out["traces0"] = traces0
        log = []
        text_out = None
        try:
            with log_steps(log):
                text_out = snaxrun.run_passes(src, case["pass"])
        except CaseTimeout:
            raise
        except Exception as e:
            out["raised"] = type(e).__name__
            out["msg"] = str(e)[:200]
        out["out"] = text_out
        try:
            _, _, c0 = convert(src)
            out["src_model"] = c0.program()
        except Unsupported as e:
            out["unsupported"] = str(e)
            # not modelled (scf.if, iter_args, …): no replay through the model, but the clause checks on the real IR of every step
            # are still evaluated, so that the oracle can attribute a failure to a listed finding
            for (name, path, before, after, exc) in log:
                try:
                    mb = snaxrun.parse(before)
                    op = mb
                    for (r_, b_, i_) in path:
                        op = list(op.regions[r_].blocks[b_].ops)[i_]
                    ma = snaxrun.parse(after) if after is not None else None
                    out["steps"].append({"rule": RULES.get(name, name), "pattern": name, "unmodelled": True,
                                         "flags": step_flags(name, mb, op, ma)})
                except CaseTimeout:
                    raise
                except Exception:
                    break
            return out
        prev_after = None
        memo = None
        for (name, path, before, after, exc) in log:
            if prev_after is not None and prev_after != before:
                out["chain_ok"] = False
            prev_after = after
            if memo and memo[0] == before:
                mb, cb = memo[1], memo[2]
            else:
                mb, _, cb = convert(before)
            mp, was_dropped, op = model_path(mb, path)
            rule = "noop" if was_dropped else RULES.get(name, name)
            st = {"rule": rule, "pattern": name, "path": mp, "before": cb.program(), "raised": exc}
            if after is not None:
                try:
                    ma, _, ca = convert(after)
                except CaseTimeout:
                    raise
                except Exception as e:
                    # DC17b can leave a use in an OUTER region before the re-inserted definition: the printed IR cannot even be
                    # parsed back. Accepted only when the clause check on the real IR before the step says so.
                    if name == "MoveMemrefDims" and type(e).__name__ == "ParseError" and existing_dim_in_loop(op):
                        st["after"] = "unparsable"
                        st["flags"] = {"existing_moved": True, "min_replaced": False, "existing_in_loop": True}
                        out["steps"].append(st)
                        out["truncated"] = True
                        break
                    raise
                memo = (after, ma, ca)
                pa = ca.program()
                st["after"] = canon(pa["prog"], pa["nargs"])
                st["flags"] = step_flags(name, mb, op, ma)
            else:
                st["after"] = None
                st["flags"] = {}
            out["steps"].append(st)
        if text_out is not None and log and log[-1][3] is not None and not out.get("truncated"):
            if snaxrun.text(snaxrun.parse(text_out)).strip() != snaxrun.text(snaxrun.parse(log[-1][3])).strip():
                out["chain_ok"] = False
        return out

    # -- the model -----------------------------------------------------------------------------------------------
    def requests(self, case, impl_out):
        if "steps" not in impl_out or "unsupported" in impl_out:
            return []
        reqs = []
        for s in impl_out["steps"]:
            reqs.append({"fn": "c17.step", "args": {"rule": s["rule"], "path": s["path"], "nargs": s["before"]["nargs"],
                                                    "prog": s["before"]["prog"], "ceil": FIXED_F03,
                                                    "negGuard": "FC17a" in PROPOSED, "keepDom": "FC17b" in PROPOSED}})
        sm = impl_out["src_model"]
        for env in case["envs"][:len(impl_out["traces0"])]:
            reqs.append({"fn": "c17.trace", "args": {"prog": sm["prog"], "env": [[i, jval(tuple(v) if isinstance(v, list) else v)]
                                                                               for i, v in enumerate(env)]}})
        return reqs

    def model(self, case, answers, impl_out):
        if "steps" not in impl_out or "unsupported" in impl_out:
            return impl_out
        steps = []
        k = 0
        for s in impl_out["steps"]:
            a = answers[k]
            k += 1
            if "err" in a:
                return {"model_error": a["err"], "rule": s["rule"]}
            r = a["ok"]
            ms = dict(s)
            if "error" in r:
                ms["after"] = None
                ms["raised"] = r["error"]
            else:
                ms["after"] = canon(r["after"], s["before"]["nargs"])
                if s["after"] == "unparsable" and s["rule"] == "moveDim" and r["nonneg"] is False:
                    ms["after"] = "unparsable"   # the model agrees that the clause NoExistingDimMove is violated by this step
                ms["raised"] = None
                ms["clauses"] = {"perfect": r["perfect"], "nonneg": r["nonneg"], "positive": r["positive"]}
            steps.append(ms)
        traces = []
        for _ in impl_out["traces0"]:
            a = answers[k]
            k += 1
            if "err" in a:
                return {"model_error": a["err"], "rule": "trace"}
            traces.append([[f"t{e[0]}", e[1]] for e in a["ok"]])
        return dict(impl_out, steps=steps, traces0=traces)

    def compare(self, case, impl_out, model_out):
        if "steps" not in impl_out or "unsupported" in impl_out:
            return None if impl_out == model_out else "outputs differ"
        if "model_error" in model_out:
            return f"model error: {model_out}"
        if not impl_out["chain_ok"]:
            return "logged rewrite steps do not chain up to the pass output"
        broken = False
        for k, (a, b) in enumerate(zip(impl_out["steps"], model_out["steps"])):
            if broken:
                # an earlier step of this run was a DC17b rewrite (real clause check AND model agree): the IR is no longer in SSA
                # form, the model rules (which check SSA form on the way to the op) are not replayed on what follows
                break
            if a.get("flags", {}).get("existing_moved") and a["after"] == b["after"] and a["raised"] == b["raised"]:
                broken = True
            if a["raised"] != b["raised"]:
                return (f"step {k} ({a['pattern']} at {a['path']}): real code "
                        f"{'raised ' + a['raised'] if a['raised'] else 'rewrote'}, model {'-> ' + b['raised'] if b['raised'] else 'rewrote'}")
            if a["after"] != b["after"]:
                return f"step {k} ({a['pattern']} at {a['path']}): model rule does not reproduce the real rewrite"
            if b.get("clauses") and not a.get("raised"):
                cl = b["clauses"]
                fl = a.get("flags", {})
                if a["rule"] == "merge" and (cl["perfect"] == fl.get("imperfect", False) or cl["nonneg"] == fl.get("negbounds", False)):
                    return f"step {k}: the model's clause evaluation {cl} differs from the clause check on the real IR {fl}"
                if a["rule"] == "moveDim" and "existing_in_loop" in fl and cl["nonneg"] == fl["existing_in_loop"]:
                    return (f"step {k}: the model's evaluation of the clause NoExistingDimMove ({cl['nonneg']}) differs from the clause "
                            f"check on the real IR (existing dim in a loop: {fl['existing_in_loop']})")
                if a["rule"] == "changeStep" and not cl["positive"] and "invalid_input" not in impl_out:
                    return f"step {k}: non-positive step on an input considered valid"
        if "invalid_input" not in impl_out and impl_out["traces0"] != model_out["traces0"]:
            return "the model's trace semantics differs from the interpreter on the source program"
        return None

    # -- the property on the real code -----------------------------------------------------------------------------
    def oracle(self, case, impl_out):
        if "invalid_input" in impl_out:
            return []
        if impl_out.get("raised"):
            if impl_out["raised"] == "RuntimeError" and "no constant value found" in impl_out.get("msg", ""):
                return []  # the pass refuses the program loudly: no program is emitted
            if CANON in case["pass"] and "iter_args" in case["src"] and impl_out["raised"] in ("ValueError", "VerifyException"):
                return [{"what": f"MergeForLoops rewrites a loop with iter_args without them: {impl_out.get('msg')}", "finding": "D18"}]
            return [{"what": f"{case['pass']} raised {impl_out['raised']}: {impl_out.get('msg')}", "finding": None}]
        if "raised" in impl_out and "steps" not in impl_out:
            return [{"what": f"{case['pass']} raised {impl_out['raised']}: {impl_out.get('msg')}", "finding": None}]
        flags = {}
        for s in impl_out.get("steps", []):
            for k, v in s.get("flags", {}).items():
                flags[k] = flags.get(k, False) or v
        if "unsupported" in impl_out:   # iter_args etc.: not modelled, still executed
            flags["imperfect"] = flags.get("imperfect", False) or "iter_args" in case["src"]

        # DC17b = a step that violates the clause NoExistingDimMove on the real IR AND introduced a use before its definition
        dc17b = any(s.get("flags", {}).get("existing_in_loop") and s.get("flags", {}).get("existing_moved")
                    for s in impl_out.get("steps", []))

        def attribute(undefined=False):
            if undefined and dc17b:
                return "DC17b"
            if flags.get("imperfect"):
                return "D18"
            if flags.get("negbounds"):
                return "DC17a"
            if flags.get("min_replaced") and not flags.get("mixed_users"):
                return "D24"   # D24 = the pattern, applied within its own guard, replaces the affine.min everywhere
            return None
        try:
            m2 = snaxrun.parse(impl_out["out"])
            m2.verify()
            f2 = find_func(m2)
        except CaseTimeout:
            raise
        except Exception as e:
            return [{"what": f"{case['pass']} output is not valid IR: {type(e).__name__}: {str(e)[:200]}", "finding": attribute(True)}]
        f1 = find_func(snaxrun.parse(case["src"]))
        # static part: the emitted program is in SSA form (xDSL's verify() does not check dominance); this also sees a use before
        # its definition that no execution of the chosen inputs reaches (zero-trip loops)
        if use_before_def(f2) and not use_before_def(f1):
            return [{"what": f"{case['pass']}: the rewritten program uses a value before its definition (an operand is not dominated "
                             f"by its definition; index constants included)", "finding": attribute(True)}]
        for env in case["envs"]:
            t1 = run_func(f1, env)
            try:
                t2 = run_func(f2, env)
            except Undefined as e:
                return [{"what": f"the rewritten program {e} (args={env})", "finding": attribute(True)}]
            except Invalid as e:
                return [{"what": f"the rewritten program is not executable: {e} (args={env})", "finding": attribute()}]
            if t1 != t2:
                k = next((i for i, (x, y) in enumerate(zip(t1, t2)) if x != y), min(len(t1), len(t2)))
                return [{"what": f"{case['pass']}: trace of side-effecting ops differs at event {k} (of {len(t1)} / {len(t2)}): original "
                                 f"{t1[k] if k < len(t1) else None}, rewritten {t2[k] if k < len(t2) else None} (args={env})",
                         "finding": attribute()}]
        if "other" in case:
            from xdsl.dialects import func

            def f_text(module_text):
                m = snaxrun.parse(module_text)
                for o in m.walk():
                    if isinstance(o, func.FuncOp) and o.sym_name.data == "f":
                        return snaxrun.text(o)
                return None
            alone = f_text(impl_out["out"])
            for order, txt in (("after", case["other"] + case["src"]), ("before", case["src"] + case["other"])):
                try:
                    both = snaxrun.run_passes(txt, case["pass"])
                except CaseTimeout:
                    raise
                except Exception:
                    continue   # the other function alone makes the pipeline raise: no statement about f
                if f_text(both) != alone:
                    return [{"what": f"{case['pass']}: the rewritten function @f differs when another function stands {order} it in the "
                                     f"module (the result for one function depends on the rest of the module)", "finding": None}]
        return []

    def nontrivial(self, case, impl_out):
        return any(s["rule"] not in ("dce", "noop") for s in impl_out.get("steps", []))

    def stats_key(self, case, impl_out):
        k = case.get("kind", "case")
        if "invalid_input" in impl_out:
            return f"{k}:invalid"
        if "unsupported" in impl_out:
            return f"{k}:unmodelled"
        if impl_out.get("raised"):
            return f"{k}:raised:{impl_out['raised']}"
        ks = sorted({s["rule"] for s in impl_out.get("steps", []) if s["rule"] not in ("noop",)})
        return k + ":" + ("+".join(ks) or "unchanged")

    def shrink(self, case):
        lines = case["src"].split("\n")
        for i, l in enumerate(lines):
            if "test.op" in l or '{tag = "u' in l or (" = " in l and "scf.for" not in l and "%c" not in l.split("=")[0]):
                yield dict(case, src="\n".join(lines[:i] + lines[i + 1:]))
        if len(case["envs"]) > 1:
            for e in case["envs"]:
                yield dict(case, envs=[e])


PROP = C17()
