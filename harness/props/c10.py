"""C10 — a tiled-strided layout means the same thing everywhere.

Correspondence: every view of `TiledStridedLayout` / `TiledStridedLayoutAttr` (affine map, all_values,
self_overlaps, is_dense, canonicalize, tile_bounds, from_strides, the values of the bound/step ops, print,
parse, the pointer arithmetic of convert-memref-to-arith) against Model/Tsl.lean.
Oracle: the property itself on the real objects, against an independent digit-wise reference `ref_addr`.

State expected of $SNAX_REPO: fixes/F06-tsl-offset-dynamic.diff and fixes/F13-subview-static-offsets.diff applied
(set C10_PRISTINE=1 to model the tree without them; D9/D23 then show up as oracle failures).
"""
import itertools
import os
import random

import compat  # noqa: F401
from framework import Prop

PRISTINE = os.environ.get("C10_PRISTINE", "") == "1"
F6 = not PRISTINE
F13 = not PRISTINE


def finding_fixed(fid):
    """True iff known_findings.json lists finding `fid` of C10 as fixed (harness/applyfix.sh flips the status when
    the fix diff is committed to the repo): selects which of the two modelled variants of the code applies."""
    import json
    p = os.path.join(os.path.dirname(os.path.dirname(os.path.dirname(os.path.abspath(__file__)))), "known_findings.json")
    try:
        return any(f.get("property") == "C10" and f.get("id") == fid and f.get("status") == "fixed"
                   for f in json.load(open(p)).get("findings", []))
    except OSError:
        return False


N1 = finding_fixed("C10-N1") or os.environ.get("C10_N1_FIXED", "") == "1"     # fixes/FC10a applied
N4 = finding_fixed("C10-N4") or os.environ.get("C10_N4_FIXED", "") == "1"     # fixes/FC10b applied


def _c05_d42_fixed():
    """fix F42 (from_stride: `steps[0] is not None`) belongs to finding D42 of C05; the model variant of from_strides
    follows its status (known_findings.d/C05.json is the per-property source, known_findings.json the merged index)."""
    import json
    root = os.path.dirname(os.path.dirname(os.path.dirname(os.path.abspath(__file__))))
    for rel in (os.path.join("known_findings.d", "C05.json"), "known_findings.json"):
        try:
            if any(f.get("property") == "C05" and f.get("id") == "D42" and f.get("status") == "fixed"
                   for f in json.load(open(os.path.join(root, rel))).get("findings", [])):
                return True
        except OSError:
            pass
    return False


F42 = (_c05_d42_fixed() or os.environ.get("C10_F42_FIXED", "") == "1") and os.environ.get("C10_F42_FIXED", "") != "0"

ENUM_CAP = 2048      # largest box that is enumerated (all_values, box sweeps)
STEPSET = [1, 2, 3, 4, 5, 8, 16, 32, 64]


# ------------------------------------------------------------------------------------------------
# JSON <-> real objects
def to_tsl(L):
    from snaxc.ir.tsl import Stride, TiledStride, TiledStridedLayout
    return TiledStridedLayout([TiledStride([Stride(s, b) for s, b in t]) for t in L["ts"]], offset=L["offset"])


def of_tsl(tsl):
    return {"ts": [[[s.step, s.bound] for s in t.strides] for t in tsl.tstrides], "offset": tsl.offset}


def is_static(L):
    return all(s is not None and b is not None for t in L["ts"] for s, b in t)


def is_pos(L):
    return all(s is not None and b is not None and s > 0 and b > 0 for t in L["ts"] for s, b in t)


def shape_of(L):
    out = []
    for t in L["ts"]:
        p = 1
        for _, b in t:
            p *= b
        out.append(p)
    return out


def ref_addr(ts, idx):
    """Reference meaning of a static layout, digit by digit (innermost digit first, outermost unreduced).
    Independent of both the Lean model and the code under test."""
    a = 0
    for d, t in enumerate(ts):
        if not t:
            continue
        rem = idx[d] if d < len(idx) else 0
        digits = []
        for k in range(len(t) - 1, 0, -1):
            digits.append(rem % t[k][1])
            rem //= t[k][1]
        digits.append(rem)
        digits.reverse()
        a += sum(dg * st[0] for dg, st in zip(digits, t))
    return a


def box(shape):
    return [list(p) for p in itertools.product(*[range(n) for n in shape])]


def size(shape):
    p = 1
    for n in shape:
        p *= n
    return p


def exc(f):
    try:
        return f()
    except (ImportError, SyntaxError, MemoryError):
        raise
    except BaseException as e:  # noqa: BLE001
        return {"raised": type(e).__name__}


# ------------------------------------------------------------------------------------------------
# affine expressions (same JSON as C19)
def of_x(e):
    from xdsl.ir.affine import AffineBinaryOpExpr, AffineBinaryOpKind, AffineConstantExpr, AffineDimExpr
    tags = {AffineBinaryOpKind.Add: "+", AffineBinaryOpKind.Mul: "*", AffineBinaryOpKind.FloorDiv: "//",
            AffineBinaryOpKind.Mod: "%", AffineBinaryOpKind.CeilDiv: "ceildiv"}
    if isinstance(e, AffineDimExpr):
        return ["d", e.position]
    if isinstance(e, AffineConstantExpr):
        return ["c", e.value]
    if isinstance(e, AffineBinaryOpExpr):
        return [tags[e.kind], of_x(e.lhs), of_x(e.rhs)]
    raise ValueError(f"unsupported affine expression {e}")


# ------------------------------------------------------------------------------------------------
# tokens
def lex(text):
    """Token list (model JSON) of `text` as produced by xDSL's MLIR lexer."""
    from xdsl.utils.lexer import Input
    from xdsl.utils.mlir_lexer import MLIRLexer, MLIRTokenKind as K
    simple = {K.L_SQUARE: "[", K.R_SQUARE: "]", K.L_PAREN: "(", K.R_PAREN: ")", K.ARROW: "->", K.COMMA: ",",
              K.COLON: ":", K.QUESTION: "?", K.GREATER: ">", K.MINUS: "-"}
    lx = MLIRLexer(Input(text, "<c10>"))
    out = []
    while True:
        t = lx.lex()
        if t.kind == K.EOF:
            return out
        if t.kind in simple:
            out.append(simple[t.kind])
        elif t.kind == K.INTEGER_LIT:
            out.append(t.kind.get_int_value(t.span))
        elif t.kind == K.BARE_IDENT and t.text == "offset":
            out.append("offset")
        else:
            out.append("other")


def render(tokens):
    """Inverse of `lex` with the spacing of `__str__`."""
    s = ""
    for t in tokens:
        if t == ",":
            s += ", "
        elif t == "->":
            s += " -> "
        elif t == ":":
            s += ": "
        else:
            s += str(t)
    return s


def parse_attr(text):
    import snaxrun
    from xdsl.parser import Parser
    return Parser(snaxrun.ctx(), f"#tsl.tsl<{text}>").parse_attribute().data


# ------------------------------------------------------------------------------------------------
# tiny interpreter for the arith ops of get_bound_ops / get_step_ops / convert-memref-to-arith
def interp(ops, env, dim_of=None, ptr_of=None, meta_of=None):
    from xdsl.dialects import arith, memref
    for op in ops:
        if isinstance(op, arith.ConstantOp):
            env[op.result] = op.value.value.data
        elif isinstance(op, memref.DimOp):
            env[op.result] = dim_of(env[op.index])
        elif isinstance(op, arith.DivUIOp):
            env[op.result] = env[op.lhs] // env[op.rhs]
        elif isinstance(op, arith.MuliOp):
            env[op.result] = env[op.lhs] * env[op.rhs]
        elif isinstance(op, arith.AddiOp):
            env[op.result] = env[op.lhs] + env[op.rhs]
        elif isinstance(op, memref.ExtractStridedMetaDataOp) and meta_of is not None:
            for res, v in zip(op.strides, meta_of):
                env[res] = v
        elif isinstance(op, memref.ExtractAlignedPointerAsIndexOp) and ptr_of is not None:
            env[op.results[0]] = ptr_of(op.source)
        elif op.name in ("test.op", "memref.subview", "builtin.module"):
            continue
        else:
            raise ValueError(f"interp: unexpected op {op.name}")
    return env


ELTS = {1: "i8", 2: "i16", 4: "i32", 8: "i64"}


def resolve_real(L, shape, el, form="memref"):
    """Run get_bound_ops / get_step_ops on a memref<?x…xiN, tsl> and evaluate the ops at runtime shape.
    form = "memref": the bound ops are asked for the memref value (memref.dim ops are generated);
    form = "shapes": they are given a list of ops producing the extents (as memref-to-snax does)."""
    from snaxc.dialects.tsl import TiledStridedLayoutAttr
    from xdsl.dialects.builtin import IntegerType, MemRefType
    from xdsl.dialects.test import TestOp
    attr = TiledStridedLayoutAttr(to_tsl(L))
    mt = MemRefType(IntegerType(8 * el), [-1] * len(shape), layout=attr)
    src = TestOp(result_types=[mt])
    out = {}
    try:
        if form == "shapes":
            from xdsl.dialects.builtin import IndexType
            shape_ops = [TestOp(result_types=[IndexType()]) for _ in shape]
            env0 = {op.results[0]: n for op, n in zip(shape_ops, shape)}
            ops, bmap = attr.get_bound_ops(list(shape_ops))
            env = interp(ops, env0)
        else:
            ops, bmap = attr.get_bound_ops(src.results[0])
            env = interp(ops, {}, dim_of=lambda i: shape[i])
        out["bounds"] = [[env[bmap[(d, k)].results[0]] for k in range(len(t))] for d, t in enumerate(L["ts"])]
    except (ImportError, SyntaxError, MemoryError):
        raise
    except BaseException as e:  # noqa: BLE001
        return {"bounds": {"raised": type(e).__name__}, "steps": None, "steps_el": None}
    for key, in_bytes in (("steps", True), ("steps_el", False)):
        try:
            ops2, smap = attr.get_step_ops(bmap, src.results[0], in_bytes=in_bytes)
            env2 = interp(ops2, dict(env))
            out[key] = [[env2[smap[(d, k)].results[0]] for k in range(len(t))] for d, t in enumerate(L["ts"])]
        except (ImportError, SyntaxError, MemoryError):
            raise
        except BaseException as e:  # noqa: BLE001
            out[key] = {"raised": type(e).__name__}
    return out


def resolve_strided_real(case):
    """get_bound_ops / get_step_ops on a memref whose layout is a StridedLayoutAttr (the metadata branch of
    get_step_ops), with the TSL built as snax-copy-to-dma builds it (from_strides of the type's strides and the tile
    bounds of the copy partner) or given directly; the emitted ops are evaluated at runtime shape / strides."""
    from snaxc.dialects.tsl import TiledStridedLayoutAttr
    from snaxc.ir.tsl import TiledStridedLayout
    from xdsl.dialects.builtin import IntegerType, MemRefType, NoneAttr, StridedLayoutAttr
    from xdsl.dialects.test import TestOp
    if case.get("layout") is None:
        tsl = TiledStridedLayout.from_strides(case["strides"], case["tile_bounds"], case["offset"])
    else:
        tsl = to_tsl(case["layout"])
    L = of_tsl(tsl)
    attr = TiledStridedLayoutAttr(tsl)
    rank = len(case["shape"])
    mt = MemRefType(IntegerType(8 * case["el_size"]), [-1] * rank, StridedLayoutAttr(case["type_strides"], 0), NoneAttr())
    src = TestOp(result_types=[mt])
    out = {"layout": L}
    try:
        ops, bmap = attr.get_bound_ops(src.results[0])
        env = interp(ops, {}, dim_of=lambda i: case["shape"][i])
        out["bounds"] = [[env[bmap[(d, k)].results[0]] for k in range(len(t))] for d, t in enumerate(L["ts"])]
    except (ImportError, SyntaxError, MemoryError):
        raise
    except BaseException as e:  # noqa: BLE001
        out["bounds"] = {"raised": type(e).__name__}
        out["steps"] = None
        return out
    try:
        ops2, smap = attr.get_step_ops(bmap, src.results[0], in_bytes=case["in_bytes"])
        env2 = interp(ops2, dict(env), meta_of=case["meta"])
        out["steps"] = [[env2[smap[(d, k)].results[0]] for k in range(len(t))] for d, t in enumerate(L["ts"])]
    except (ImportError, SyntaxError, MemoryError):
        raise
    except BaseException as e:  # noqa: BLE001
        out["steps"] = {"raised": type(e).__name__}
    return out


def chain_steps(L, bounds, seed_pos):
    """The contiguity convention for dynamic steps, in elements, independent of the code under test:
    the chain starts at (static step at `seed_pos`) x (its extent); walking the dimensions right to left and
    the tiles of a dimension from the innermost outwards, every dynamic step is the current chain value,
    which is then multiplied by that tile's extent. Returns {(dim, depth): step} for the dynamic steps."""
    d0, k0 = seed_pos
    cur = L["ts"][d0][k0][0] * bounds[d0][k0]
    out = {}
    for d in reversed(range(len(L["ts"]))):
        for k in reversed(range(len(L["ts"][d]))):
            if L["ts"][d][k][0] is None:
                out[(d, k)] = cur
                cur *= bounds[d][k]
    return out


def injective_on_box(bounds, steps, cap):
    """True/False: the address function of the (bound, step) pairs is one-to-one on the box; None: box too large."""
    flat = [(b, s) for bt, st in zip(bounds, steps) for b, s in zip(bt, st)]
    n = 1
    for b, _ in flat:
        n *= b
    if n > cap:
        return None
    vals = [0]
    for b, s in flat:
        vals = [v + i * s for v in vals for i in range(b)]
    return len(set(vals)) == len(vals)


def subview_real(L, el, shape, offs, dyn, base):
    """Lower `extract_aligned_pointer_as_index(subview %m[offs])` with the real pass and evaluate it."""
    import snaxrun
    from snaxc.transforms.convert_memref_to_arith import ConvertMemrefToArithPass
    lay = f"#tsl.tsl<{to_tsl(L)}>"
    rank = len(shape)
    mt = f"memref<{'x'.join(map(str, shape))}x{ELTS[el]}, {lay}>"
    one = ", ".join(["[1] -> (1)"] * rank)
    rt = f"memref<{'x'.join(['1'] * rank)}x{ELTS[el]}, #tsl.tsl<{one}>>"
    lines = [f'%m = "test.op"() : () -> ({mt})']
    names = []
    for i in range(len(dyn)):
        lines.append(f'%d{i} = "test.op"() : () -> (index)')
        names.append(f"%d{i}")
    it = iter(names)
    olist = ", ".join(next(it) if o is None else str(o) for o in offs)
    ones = ", ".join(["1"] * rank)
    lines.append(f"%s = memref.subview %m[{olist}] [{ones}] [{ones}] : {mt} to {rt}")
    lines.append(f'%p = "memref.extract_aligned_pointer_as_index"(%s) : ({rt}) -> index')
    lines.append('"test.op"(%p) : (index) -> ()')
    module = snaxrun.parse("\n".join(lines))
    ConvertMemrefToArithPass().apply(snaxrun.ctx(), module)
    ops = list(module.body.block.ops)
    env = {}
    k = 0
    for op in ops[1:]:
        if op.name == "test.op" and len(op.results) == 1 and not op.operands:
            env[op.results[0]] = dyn[k]
            k += 1
    env = interp(ops, env, ptr_of=lambda v: base if v is ops[0].results[0] else None)
    last = [op for op in ops if op.name == "test.op" and len(op.operands) == 1][-1]
    v = env.get(last.operands[0])
    if v is None:
        raise ValueError("pointer not lowered")
    return v


def subview_module_real(items):
    """Several pointer computations in ONE module, lowered by ONE run of convert-memref-to-arith:
    src = "tsl": extract_aligned_pointer_as_index(subview of a TSL memref) (rewritten by the pass);
    src = "direct": the pointer of the TSL memref itself; "plain": subview of a memref without TSL layout;
    "arg": the pointer of a function argument — the pass must leave these three alone.
    Returns per item {"ptr": value} or {"unchanged": True}."""
    import snaxrun
    from snaxc.transforms.convert_memref_to_arith import ConvertMemrefToArithPass
    from xdsl.dialects import memref
    lines, funcs = [], []
    for i, it in enumerate(items):
        el, shape, src = it["el"], it["shape"], it["src"]
        rank = len(shape)
        dims = "x".join(map(str, shape))
        if src == "plain":
            mt = f"memref<{dims}x{ELTS[el]}>"
            st = [1] * rank
            for d in range(rank - 2, -1, -1):
                st[d] = st[d + 1] * shape[d + 1]
            offs = [min(o or 0, n - 1) for o, n in zip(it["offs"], shape)]
            off = sum(o * s_ for o, s_ in zip(offs, st))
            rt = f"memref<{'x'.join(['1'] * rank)}x{ELTS[el]}, strided<[{', '.join(map(str, st))}], offset: {off}>>"
            ones = ", ".join(["1"] * rank)
            lines += [f'%m{i} = "test.op"() : () -> ({mt})',
                      f"%s{i} = memref.subview %m{i}[{', '.join(map(str, offs))}] [{ones}] [{ones}] : {mt} to {rt}",
                      f'%p{i} = "memref.extract_aligned_pointer_as_index"(%s{i}) : ({rt}) -> index',
                      f'"test.op"(%p{i}) : (index) -> ()']
            continue
        mt = f"memref<{dims}x{ELTS[el]}, #tsl.tsl<{to_tsl(it['layout'])}>>"
        if src == "direct":
            lines += [f'%m{i} = "test.op"() : () -> ({mt})',
                      f'%p{i} = "memref.extract_aligned_pointer_as_index"(%m{i}) : ({mt}) -> index',
                      f'"test.op"(%p{i}) : (index) -> ()']
        elif src == "arg":
            funcs += [f"func.func @f{i}(%a{i} : {mt}) {{",
                      f'  %p{i} = "memref.extract_aligned_pointer_as_index"(%a{i}) : ({mt}) -> index',
                      f'  "test.op"(%p{i}) : (index) -> ()', "  func.return", "}"]
        else:
            one = ", ".join(["[1] -> (1)"] * rank)
            rt = f"memref<{'x'.join(['1'] * rank)}x{ELTS[el]}, #tsl.tsl<{one}>>"
            mname = f"%m{i}" if it.get("reuse") is None else f"%m{it['reuse']}"
            if it.get("reuse") is None:
                lines.append(f'%m{i} = "test.op"() : () -> ({mt})')
            names = []
            for j in range(len(it["dyn"])):
                lines.append(f'%d{i}_{j} = "test.op"() : () -> (index)')
                names.append(f"%d{i}_{j}")
            itn = iter(names)
            olist = ", ".join(next(itn) if o is None else str(o) for o in it["offs"])
            ones = ", ".join(["1"] * rank)
            lines += [f"%s{i} = memref.subview {mname}[{olist}] [{ones}] [{ones}] : {mt} to {rt}",
                      f'%p{i} = "memref.extract_aligned_pointer_as_index"(%s{i}) : ({rt}) -> index',
                      f'"test.op"(%p{i}) : (index) -> ()']
    module = snaxrun.parse("\n".join(lines + funcs))
    ConvertMemrefToArithPass().apply(snaxrun.ctx(), module)
    ops = [op for op in module.walk() if op is not module]
    # the values that stand for run-time inputs, in program order: memrefs (base pointers) and dynamic offsets
    top = [op for op in ops if op.name == "test.op" and not op.operands and len(op.results) == 1]
    env, bases = {}, {}
    order = [it for it in items if it["src"] != "arg"]
    k = 0
    for it in order:
        if it.get("reuse") is None:
            bases[top[k].results[0]] = it["base"]
            k += 1
        if it["src"] == "tsl":
            for v in it["dyn"]:
                env[top[k].results[0]] = v
                k += 1
    env = interp([op for op in ops if op.name not in ("func.func", "func.return")], env, ptr_of=lambda v: bases.get(v))
    users = [op for op in ops if op.name == "test.op" and len(op.operands) == 1]
    # consumers appear in item order for the top-level items, then the functions
    seq = [i for i, it in enumerate(items) if it["src"] != "arg"] + [i for i, it in enumerate(items) if it["src"] == "arg"]
    out = [None] * len(items)
    for i, u in zip(seq, users):
        owner = u.operands[0].owner
        if isinstance(owner, memref.ExtractAlignedPointerAsIndexOp) and (
                items[i]["src"] != "tsl" or isinstance(owner.source.owner, memref.SubviewOp)):
            out[i] = {"unchanged": True}
        else:
            v = env.get(u.operands[0])
            out[i] = {"ptr": v} if v is not None else {"unchanged": True}
    return {"results": out}


# ------------------------------------------------------------------------------------------------
# generators
def gen_tstride(rng, depth, bounds, mode):
    bs = [rng.choice(bounds) for _ in range(depth)]
    if mode == "contig":       # innermost-contiguous chain with an optional gap factor per level
        st = []
        cur = rng.choice([1, 1, 1, 2, 3, 8])
        for b in reversed(bs):
            st.insert(0, cur)
            cur = cur * b * rng.choice([1, 1, 1, 2])
        return [[s, b] for s, b in zip(st, bs)]
    return [[rng.choice(STEPSET), b] for b in bs]


def gen_layout(rng, max_rank=4, max_depth=3, bounds=(1, 1, 2, 2, 3, 4, 5, 8), cap=ENUM_CAP, dyn=0.0, zero=0.0,
               min_rank=1):
    while True:
        rank = rng.randint(min_rank, max_rank)
        mode = rng.choice(["contig", "contig", "rand", "interleave"])
        ts = [gen_tstride(rng, rng.randint(1, max_depth), bounds, "rand" if mode == "interleave" else mode)
              for _ in range(rank)]
        if mode == "interleave":   # a dense layout: assign contiguous steps in a random order over all strides
            order = [(d, k) for d, t in enumerate(ts) for k in range(len(t))]
            rng.shuffle(order)
            cur = rng.choice([1, 1, 1, 2])
            for d, k in order:
                ts[d][k][0] = cur
                cur *= ts[d][k][1]
            if order and rng.random() < 0.3:   # break it a little: repeated step / overlap / gap
                d, k = rng.choice(order)
                ts[d][k][0] = rng.choice([ts[d][k][0] * 2, max(1, ts[d][k][0] // 2), 1])
        if size(shape_of({"ts": ts})) <= cap:
            break
    L = {"ts": ts, "offset": rng.choice([0, 0, 0, 1, 7, 64, -3, None])}
    if rng.random() < dyn and L["ts"]:
        for t in L["ts"]:
            r = rng.random()
            if r < 0.45:
                t[0] = [None, None]
            elif r < 0.6:
                t[0][1] = None
            elif r < 0.7:
                t[0][0] = None
        if rng.random() < 0.05 and len(L["ts"][0]) > 1:
            L["ts"][0][-1][rng.randrange(2)] = None      # malformed: dynamic inner entry
    if rng.random() < zero and L["ts"]:
        t = rng.choice(L["ts"])
        t[rng.randrange(len(t))][rng.randrange(2)] = 0
    return L


def gen_subview(rng, layout=None):
    if layout is not None:
        L = layout
    else:
        L = gen_layout(rng, max_rank=3, dyn=0.0, cap=10 ** 6)
        L["offset"] = 0
        if rng.random() < 0.2:
            L["ts"][0][0] = [L["ts"][0][0][0], None]          # dynamic outermost bound
    sh, offs, dyn = [], [], []
    for t in L["ts"]:
        inner = 1
        for _, b in t[1:]:
            inner *= b
        outer = t[0][1] or 4
        sh.append(inner * outer)
        o = inner * rng.randrange(outer)
        if rng.random() < 0.12:
            o += rng.randrange(inner)                       # not tile aligned
        r = rng.random()
        if r < 0.4:
            offs.append(None)
            dyn.append(o)
        elif r < 0.6:
            offs.append(0)
        else:
            offs.append(o)
    return {"kind": "subview", "layout": L, "el": rng.choice([1, 4, 8]), "shape": sh, "offs": offs,
            "dyn": dyn, "base": rng.choice([0, 4096, 65536])}


def module_rt_real(layouts):
    """Several memref types with tsl layouts in ONE module: parse, print, parse the print, print again."""
    import snaxrun
    lines = []
    for i, L in enumerate(layouts):
        dims = "x".join(["?"] * len(L["ts"]))
        lines.append(f'%m{i} = "test.op"() : () -> (memref<{dims + "x" if dims else ""}i8, #tsl.tsl<{to_tsl(L)}>>)')
    m1 = snaxrun.parse("\n".join(lines))
    t1 = snaxrun.text(m1)
    t2 = snaxrun.text(snaxrun.parse(t1))
    got = [of_tsl(op.results[0].type.layout.data) for op in m1.body.block.ops]
    return {"layouts": got, "print_fixed_point": t1 == t2}


def helpers_real(L, O):
    from snaxc.dialects.tsl import TiledStridedLayoutAttr
    tsl, other = to_tsl(L), to_tsl(O)
    depths = list(range(max((len(t) for t in L["ts"]), default=0) + 2))
    out = {"ts_dynamic": [t.is_dynamic() for t in tsl.tstrides],
           "ts_all_values": [exc(lambda t=t: [list(v) for v in t.all_values()]) for t in tsl.tstrides],
           "get_stride": [[(lambda s_: None if s_ is None else [s_.step, s_.bound])(t.get_stride(d)) for d in depths]
                          for t in tsl.tstrides],
           "equal_tb": tsl.equal_tile_bounds(other), "equal_tb_self": tsl.equal_tile_bounds(tsl),
           "strides_str": [str(s_) for _, _, s_ in tsl]}
    # not modelled, checked here: equal attributes hash equally; a Stride is not equal to a non-Stride
    a1, a2 = TiledStridedLayoutAttr(tsl), TiledStridedLayoutAttr(to_tsl(L))
    out["hash_consistent"] = (a1 == a2) and (hash(a1) == hash(a2))
    out["eq_foreign"] = all((s_ == (s_.step, s_.bound)) is False for _, _, s_ in tsl)
    return out, depths


def gen_pts(rng, L):
    if not is_static(L):
        return []
    sh = shape_of(L)
    n = size(sh)
    if 0 < n <= 128:
        pts = box(sh)
    else:
        pts = [[rng.randrange(max(1, s)) for s in sh] for _ in range(48)]
        pts.append([max(0, s - 1) for s in sh])
    for _ in range(3):   # beyond the box along the outermost digit
        pts.append([rng.randrange(max(1, s)) + rng.randrange(1, 4) * max(1, s) for s in sh])
    return pts


def mutate_text(rng, text):
    r = rng.random()
    toks = ["[", "]", "(", ")", ",", "->", "?", "offset", ":", "7", "x", ">"]
    if r < 0.3:
        return text.replace(", ", " ", rng.randint(1, 3))          # commas are optional inside lists
    if r < 0.5 and text:
        i = rng.randrange(len(text))
        return text[:i] + text[i + 1:]
    if r < 0.8:
        i = rng.randrange(len(text) + 1)
        return text[:i] + " " + rng.choice(toks) + " " + text[i:]
    return text + rng.choice([", offset: 4", ", offset: ?", ", offset: -2", ",", " offset 3", ", offset: 1, [2] -> (1)"])


class C10(Prop):
    id = "C10"
    PARALLEL = True
    exhaustive_thorough = True
    trusted_base = [
        "modelled: snaxc/ir/tsl/*.py, TiledStridedLayoutAttr.get_affine_map / get_bound_ops / get_step_ops (values "
        "of the emitted ops), TSLParser + __str__ at token level, LowerExtractAlignedPointerOp (Model/Tsl.lean)",
        "xDSL's MLIR lexer (token stream handed to the model), xDSL AffineExpr smart constructors (modelled in "
        "Model/Affine.lean, checked structurally here), numpy broadcasting in all_values (exercised)",
        "harness mini-interpreter for arith.constant/muli/divui/addi/memref.dim (unbounded integers, no wrap-around)",
    ]
    assumptions = [
        "steps and bounds are non-negative integers (the property quantifies over positive ones; 0 is covered as "
        "malformed input); negative literals are outside the model",
        "numpy int64 overflow in all_values is not modelled (addresses < 2^63)",
        "get_step_ops is modelled for memrefs whose layout is a TSL attribute (the StridedLayoutAttr special case "
        "that reads strides from extract_strided_metadata is not modelled)",
        "largest_common_contiguous_block is covered by C05, not here",
        "expects fixes F06 (offset: ?) and F13 (static subview offsets) applied to $SNAX_REPO",
        "memrefs with a StridedLayoutAttr (the extract_strided_metadata branch of get_step_ops) are modelled by "
        "stepsAtStrided on the tree with FC10a; the variant with fixes/FC10b follows the status of finding C10-N4",
        "dynamic steps are judged against the contiguity convention (largest static step x its extent, then right to "
        "left); a layout without any static step has no convention (finding C10-N1)",
    ]
    rule = ("layouts of rank<=4, tile depth<=3 built in four styles (contiguous chains with gaps, random steps, "
            "dense interleavings, perturbed interleavings), unit bounds, repeated steps, offsets incl. negative and "
            "dynamic, dynamic outermost entries; non-trivial = depth>=2 somewhere or dynamic; distinct by canonical JSON")

    # ---- cases -------------------------------------------------------------------------------
    def cases(self, rng, tier):
        quick = tier == "quick"
        n = 260 if quick else 6000
        for _ in range(n):
            L = gen_layout(rng, dyn=0.25, zero=0.04)
            yield {"kind": "views", "layout": L, "pts": gen_pts(rng, L), "enum": True}
        for _ in range(200 if quick else 3000):   # tiny layouts: near-dense / near-injective corner cases
            L = {"ts": [[[rng.choice([1, 2, 3, 4]), rng.choice([1, 2, 3])] for _ in range(rng.randint(1, 2))]
                        for _ in range(rng.randint(1, 2))], "offset": 0}
            yield {"kind": "views", "layout": L, "pts": box(shape_of(L)), "enum": True}
        for _ in range(40 if quick else 800):    # beyond the property's depth 3 (the theorems cover every depth)
            L = gen_layout(rng, max_rank=2, max_depth=4, bounds=(1, 2, 2, 3), dyn=0.1)
            yield {"kind": "views", "layout": L, "pts": gen_pts(rng, L), "enum": True}
        for _ in range(60 if quick else 1500):   # randomly beyond: large bounds, no enumeration
            L = gen_layout(rng, bounds=(1, 2, 3, 7, 16, 33, 64), cap=10 ** 12, dyn=0.2)
            pts = []
            if is_static(L):
                sh = shape_of(L)
                pts = [[rng.randrange(s) for s in sh] for _ in range(24)] + [
                    [rng.randrange(s) + s * rng.randrange(1, 3) for s in sh] for _ in range(3)]
            yield {"kind": "views", "layout": L, "pts": pts, "enum": False}
        for _ in range(80 if quick else 1500):
            rank = rng.randint(1, 4)
            tb = [[rng.choice([1, 2, 3, 4, 8]) for _ in range(rng.randint(1, 3))] for _ in range(rank)]
            st = [rng.choice(STEPSET + [128, 1000]) for _ in range(rank)]
            r = rng.random()
            if r < 0.25:
                for t in tb:
                    if rng.random() < 0.5:
                        t[0] = None
                if rng.random() < 0.5:
                    st[rng.randrange(rank)] = None
            elif r < 0.32:
                rng.choice(tb)[-1] = rng.choice([0, None])
            elif r < 0.36:
                st[0] = 0
            elif r < 0.4:
                tb = tb[:-1] + ([[]] if rng.random() < 0.5 else [])
            yield {"kind": "from_strides", "strides": st, "tile_bounds": tb, "offset": rng.choice([0, 5, None])}
        for _ in range(80 if quick else 1500):
            L = gen_layout(rng, dyn=0.8, zero=0.03, cap=10 ** 6)
            shp = []
            for t in L["ts"]:
                inner = 1
                for _, b in t[1:]:
                    inner *= b or 1
                k = rng.randint(1, 5)
                shp.append(inner * k + (rng.randrange(inner) if rng.random() < 0.1 else 0)
                           if t[0][1] is None else inner * (t[0][1] or 1))
            yield {"kind": "resolve", "layout": L, "shape": shp, "el": rng.choice([1, 2, 4, 4, 8]),
                   "form": rng.choice(["memref", "memref", "shapes"])}
        for _ in range(60 if quick else 1200):   # the common dynamic shape: every dimension `[?, tiles…] -> (?, static…)`
            rank = rng.randint(1, 3)
            ts = [[[None, None]] + gen_tstride(rng, rng.randint(0, 2), (1, 2, 2, 3, 4, 8), "contig")
                  for _ in range(rank)]
            if rng.random() < 0.6:   # make the static part one dense interleaving (the layouts the compiler builds)
                order = [(d, k) for d, t in enumerate(ts) for k in range(1, len(t))]
                rng.shuffle(order)
                cur = 1
                for d, k in order:
                    ts[d][k][0] = cur
                    cur *= ts[d][k][1]
            shp = []
            for t in ts:
                inner = 1
                for _, b in t[1:]:
                    inner *= b
                shp.append(inner * rng.randint(1, 4))
            yield {"kind": "resolve", "layout": {"ts": ts, "offset": rng.choice([0, 0, 16, None])}, "shape": shp,
                   "el": rng.choice([1, 2, 4, 8]), "form": rng.choice(["memref", "shapes"])}
        for i in range(90 if quick else 2000):   # memrefs with a StridedLayoutAttr: the metadata branch of get_step_ops
            rank = rng.randint(1, 3)
            el_size = rng.choice([1, 2, 4, 8])
            in_bytes = rng.random() < 0.75
            if i % 4 != 3:
                # as snax-copy-to-dma: from_strides(strides of the type, tile bounds of the TSL partner)
                strides = [rng.choice([None, None, 1, 2, 4, 20, 40]) for _ in range(rank)]
                tb = [[rng.choice([None, None, 2, 3])] + [rng.choice([1, 2, 3, 4, 8]) for _ in range(rng.randint(0, 2))]
                      for _ in range(rank)]
                if rng.random() < 0.05:
                    rng.choice(tb)[-1] = rng.choice([0, None])       # malformed inner bound
                shp = []
                for t in tb:
                    inner = 1
                    for b in t[1:]:
                        inner *= b or 1
                    shp.append(inner * (t[0] or rng.randint(1, 4)))
                meta = [st if st is not None else rng.choice([1, 3, 16, 40, 100]) for st in strides]
                yield {"kind": "resolve_strided", "layout": None, "strides": strides, "tile_bounds": tb,
                       "offset": rng.choice([0, 0, 5, None]), "type_strides": strides, "shape": shp, "meta": meta,
                       "el_size": el_size, "in_bytes": in_bytes}
            else:
                # any TSL on a strided memref (the branch only looks at the last tile of every dimension)
                L = gen_layout(rng, max_rank=3, dyn=0.9, zero=0.02, cap=10 ** 6)
                shp = []
                for t in L["ts"]:
                    inner = 1
                    for _, b in t[1:]:
                        inner *= b or 1
                    shp.append(inner * (t[0][1] or rng.randint(1, 4)))
                ts_ = [rng.choice([None, 1, 8]) for _ in L["ts"]]
                yield {"kind": "resolve_strided", "layout": L, "type_strides": ts_, "shape": shp,
                       "meta": [st if st is not None else rng.choice([1, 3, 16, 40]) for st in ts_],
                       "el_size": el_size, "in_bytes": in_bytes}
        for _ in range(120 if quick else 2500):
            L = gen_layout(rng, dyn=0.3, zero=0.05, cap=10 ** 9, bounds=(1, 2, 3, 4, 8, 16), min_rank=0)
            text = str(to_tsl(L))
            if rng.random() < 0.45:
                text = mutate_text(rng, text)
            yield {"kind": "parse", "text": text}
        for _ in range(40 if quick else 600):
            yield gen_subview(rng)
        for _ in range(30 if quick else 500):    # several pointer computations in one module, one pass run
            items = []
            for _ in range(rng.randint(2, 4)):
                prev = [j for j, x in enumerate(items) if x["src"] == "tsl" and x.get("reuse") is None]
                if prev and rng.random() < 0.45:
                    # another subview of the SAME memref value (same type, other offsets)
                    j = rng.choice(prev)
                    it = gen_subview(rng, layout=items[j]["layout"])
                    it.update(el=items[j]["el"], base=items[j]["base"], src="tsl", reuse=j)
                    items.append(it)
                    continue
                it = gen_subview(rng)
                it["src"] = rng.choice(["tsl", "tsl", "tsl", "direct", "plain", "arg"])
                if it["src"] == "arg":
                    it["layout"]["ts"][0][0] = [it["layout"]["ts"][0][0][0], it["layout"]["ts"][0][0][1] or 4]
                items.append(it)
            yield {"kind": "subview_module", "items": items}
        for _ in range(40 if quick else 600):    # the small helpers of the classes
            L = gen_layout(rng, max_rank=3, dyn=0.3, zero=0.1, cap=4096)
            O = rng.choice([L, of_tsl(to_tsl(L).canonicalize()), gen_layout(rng, max_rank=3, dyn=0.3, cap=4096)])
            yield {"kind": "helpers", "layout": L, "other": O}
        for _ in range(20 if quick else 300):    # several tsl attributes in one module: parse, print, parse again
            yield {"kind": "module_rt", "layouts": [gen_layout(rng, max_rank=3, dyn=0.4, cap=10 ** 9, bounds=(1, 2, 3, 4, 8, 16))
                                                    for _ in range(rng.randint(2, 4))]}
        for _ in range(15 if quick else 200):    # steps and bounds of different lengths
            L = gen_layout(rng, max_rank=2, dyn=0.2, cap=10 ** 6)
            t = rng.choice(L["ts"])
            bounds = ", ".join("?" if b is None else str(b) for _, b in t)
            steps = ", ".join("?" if s_ is None else str(s_) for s_, _ in t)
            extra = rng.choice([steps + ", 1", ", ".join(steps.split(", ")[:-1])])
            yield {"kind": "parse", "text": f"[{bounds}] -> ({extra})"}
        if not quick:
            yield from self.exhaustive()

    def exhaustive(self):
        """Named small spaces, enumerated completely (thorough tier):
        E1: rank 1, depth<=3, bounds in {1,2,3}, steps in {1,2,3,4,6,8,9,12};
        E2: rank 2, depth<=2, bounds in {1,2}, steps in {1,2,4,8}."""
        s1 = [[s, b] for b in (1, 2, 3) for s in (1, 2, 3, 4, 6, 8, 9, 12)]
        for depth in (1, 2, 3):
            for t in itertools.product(s1, repeat=depth):
                L = {"ts": [[list(x) for x in t]], "offset": 0}
                sh = shape_of(L)
                yield {"kind": "views", "layout": L, "pts": box(sh) + [[sh[0] + 1]], "enum": True}
        s2 = [[s, b] for b in (1, 2) for s in (1, 2, 4, 8)]
        dims = [t for depth in (1, 2) for t in itertools.product(s2, repeat=depth)]
        for t0 in dims:
            for t1 in dims:
                L = {"ts": [[list(x) for x in t0], [list(x) for x in t1]], "offset": 0}
                yield {"kind": "views", "layout": L, "pts": box(shape_of(L)), "enum": True}

    def extra_search_cases(self, rng, tier):
        return self.cases(rng, "thorough")

    # ---- real code -----------------------------------------------------------------------------
    def impl(self, case):
        k = case["kind"]
        if k == "views":
            from snaxc.dialects.tsl import TiledStridedLayoutAttr
            L = case["layout"]
            tsl = to_tsl(L)
            attr = TiledStridedLayoutAttr(tsl)
            out = {"is_dynamic": tsl.is_dynamic()}
            amap = exc(lambda: attr.get_affine_map())
            if isinstance(amap, dict):
                out["affine"] = amap
                out["affine_eval"] = None
            else:
                out["affine"] = of_x(amap.results[0])
                out["affine_eval"] = [amap.eval(p, [])[0] for p in case["pts"]]
            out["addr"] = [ref_addr(L["ts"], p) for p in case["pts"]] if is_static(L) and all(
                b > 0 for t in L["ts"] for _, b in t) else None
            if case["enum"]:
                out["all_values"] = exc(lambda: [int(x) for x in tsl.all_values()])
                out["self_overlaps"] = exc(lambda: bool(tsl.self_overlaps()))
                out["is_dense"] = exc(lambda: bool(tsl.is_dense()))
            out["canon"] = of_tsl(tsl.canonicalize())
            # theorem canonicalize_idempotent: the canonical form is a fixed point of the real canonicalize()
            out["idem"] = of_tsl(tsl.canonicalize().canonicalize()) == out["canon"]
            out["tile_bounds"] = tsl.tile_bounds()
            out["print"] = str(tsl)
            out["attr_print"] = str(attr)
            # (a) nothing above may have changed the object, and asking again gives the same answers
            out["stable"] = (of_tsl(tsl) == L and of_tsl(tsl.canonicalize()) == out["canon"] and str(tsl) == out["print"]
                             and tsl.tile_bounds() == out["tile_bounds"] and tsl.is_dynamic() == out["is_dynamic"]
                             and (not case["enum"] or exc(lambda: [int(x) for x in tsl.all_values()]) == out["all_values"])
                             and (isinstance(amap, dict) or of_x(attr.get_affine_map().results[0]) == out["affine"]))
            return out
        if k == "from_strides":
            from snaxc.ir.tsl import TiledStridedLayout
            return of_tsl(TiledStridedLayout.from_strides(case["strides"], case["tile_bounds"], case["offset"]))
        if k == "resolve":
            out = resolve_real(case["layout"], case["shape"], case["el"], case.get("form", "memref"))
            # the same questions asked of the canonical form (the canonical layout must mean the same)
            canon = resolve_real(of_tsl(to_tsl(case["layout"]).canonicalize()), case["shape"], 1)
            out["canon_bounds"] = canon["bounds"]
            out["canon_steps_el"] = canon["steps_el"]
            return out
        if k == "resolve_strided":
            return resolve_strided_real(case)
        if k == "subview_module":
            return subview_module_real(case["items"])
        if k == "helpers":
            return helpers_real(case["layout"], case["other"])[0]
        if k == "module_rt":
            return module_rt_real(case["layouts"])
        if k == "parse":
            return exc(lambda: of_tsl(parse_attr(case["text"])))
        if k == "subview":
            return {"ptr": subview_real(case["layout"], case["el"], case["shape"], case["offs"], case["dyn"],
                                        case["base"])}
        raise ValueError(k)

    # ---- model ---------------------------------------------------------------------------------
    def requests(self, case):
        k = case["kind"]
        if k == "views":
            return [{"fn": "c10.views", "args": {"layout": case["layout"], "pts": case["pts"], "enum": case["enum"]}}]
        if k == "from_strides":
            return [{"fn": "c10.from_strides", "args": dict({kk: case[kk] for kk in ("strides", "tile_bounds", "offset")},
                                                            f42=F42)}]
        if k == "resolve":
            return [{"fn": "c10.resolve", "args": {"layout": case["layout"], "shape": case["shape"], "el": e, "n1": N1,
                                                   "canon": c}} for e, c in ((case["el"], False), (1, False), (1, True))]
        if k == "resolve_strided":
            return [{"fn": "c10.resolve_strided", "args": {
                "layout": case.get("layout"), "strides": case.get("strides", []), "tile_bounds": case.get("tile_bounds", []),
                "offset": case.get("offset", 0), "shape": case["shape"], "meta": case["meta"],
                # with fix FC10b the metadata strides are scaled by the requested unit, not by the element size
                "el_size": (case["el_size"] if case["in_bytes"] else 1) if N4 else case["el_size"],
                "el": case["el_size"] if case["in_bytes"] else 1, "f42": F42}}]
        if k == "subview_module":
            return [{"fn": "c10.subview", "args": {"layout": it["layout"], "el": it["el"], "offs": it["offs"],
                                                   "dyn": it["dyn"], "f13": F13, "base": it["base"]}}
                    for it in case["items"] if it["src"] == "tsl"]
        if k == "helpers":
            depths = list(range(max((len(t) for t in case["layout"]["ts"]), default=0) + 2))
            return [{"fn": "c10.helpers", "args": {"layout": case["layout"], "other": case["other"], "depths": depths}}]
        if k == "module_rt":
            return [{"fn": "c10.parse", "args": {"tokens": lex(str(to_tsl(L)) + ">"), "f6": F6}} for L in case["layouts"]]
        if k == "parse":
            return [{"fn": "c10.parse", "args": {"tokens": lex(case["text"] + ">"), "f6": F6}}]
        if k == "subview":
            return [{"fn": "c10.subview", "args": {"layout": case["layout"], "el": case["el"], "offs": case["offs"],
                                                   "dyn": case["dyn"], "f13": F13, "base": case["base"]}}]
        return []

    def model(self, case, answers):
        if case["kind"] == "subview_module":
            it_ans = iter(answers)
            res = []
            for it in case["items"]:
                if it["src"] != "tsl":
                    res.append({"unchanged": True})
                    continue
                a = next(it_ans)
                if "err" in a:
                    return {"model_error": a["err"]}
                res.append(a["ok"] if isinstance(a["ok"], dict) else {"ptr": a["ok"]})
            return {"results": res}
        if case["kind"] == "module_rt":
            if any("err" in a for a in answers):
                return {"model_error": [a.get("err") for a in answers]}
            return {"layouts": [a["ok"] for a in answers], "print_fixed_point": True}
        a = answers[0]
        if "err" in a:
            return {"model_error": a["err"]}
        r = a["ok"]
        k = case["kind"]
        if k == "resolve":
            b = answers[1]
            if "err" in b:
                return {"model_error": b["err"]}
            r["steps_el"] = b["ok"]["steps"]
            c = answers[2]
            if "err" in c:
                return {"model_error": c["err"]}
            r["canon_bounds"] = c["ok"]["bounds"]
            r["canon_steps_el"] = c["ok"]["steps"]
            return r
        if k == "helpers":
            r["strides_str"] = [render(t) for t in r["strides_str"]]
            r["hash_consistent"] = True
            r["eq_foreign"] = True
            return r
        if k == "views":
            r["stable"] = True
            r["idem"] = True
            L = case["layout"]
            if not (is_static(L) and all(b > 0 for t in L["ts"] for _, b in t)):
                r["addr"] = None
            toks = r.pop("print")
            r["print"] = render(toks)
            r["attr_print"] = "#tsl.tsl<" + r["print"] + ">"
            if not case["enum"]:
                for kk in ("all_values", "self_overlaps", "is_dense"):
                    r.pop(kk, None)
            return r
        if k == "subview":
            if isinstance(r, dict):
                return r
            return {"ptr": r}
        return r

    def compare(self, case, impl_out, model_out):
        if isinstance(impl_out, dict) and "raised" in impl_out and isinstance(model_out, dict) and "raised" in model_out:
            impl_out = {"raised": impl_out["raised"]}     # drop the message
        return super().compare(case, impl_out, model_out)

    # ---- the property on the real code ------------------------------------------------------
    def oracle(self, case, impl_out):
        k = case["kind"]
        bad = []

        def fail(what, finding=None):
            bad.append({"what": what, "finding": finding})

        if k == "views":
            from snaxc.dialects.tsl import TiledStridedLayoutAttr
            L = case["layout"]
            if "raised" in impl_out:
                fail(f"a view raised {impl_out['raised']}: {impl_out.get('msg')}")
                return bad
            tsl = to_tsl(L)
            if not impl_out.get("stable", True):
                fail(f"a view of `{tsl}` changed the layout object or answered differently when asked again")
            if not impl_out.get("idem", True):
                fail(f"canonicalize() is not idempotent on `{tsl}`: `{tsl.canonicalize()}` canonicalises further to "
                     f"`{tsl.canonicalize().canonicalize()}` (theorem canonicalize_idempotent)")
            # textual form: print -> parse gives an equal layout (dynamic entries and offset included);
            # 0 prints as `?` (outside "positive"), so only layouts without 0 entries are required to round-trip;
            # a rank-0 layout with an offset prints a leading comma and is not a layout of the quantifier
            if all(s != 0 and b != 0 for t in L["ts"] for s, b in t) and L["ts"]:
                back = exc(lambda: parse_attr(impl_out["print"]))
                if isinstance(back, dict):
                    fid = "D9" if L["offset"] is None else None
                    fail(f"printed form `{impl_out['print']}` does not parse ({back['raised']})", fid)
                elif of_tsl(back) != L:
                    fail(f"print/parse round trip changed the layout: `{impl_out['print']}` -> `{back}`")
            if not is_pos(L):
                return bad
            sh = shape_of(L)
            if impl_out["tile_bounds"] != [[b for _, b in t] for t in L["ts"]]:
                fail("tile_bounds differ from the layout's bounds")
            if case["enum"] and size(sh) <= ENUM_CAP:
                pts = box(sh)
            else:
                pts = case["pts"]
            ref = [ref_addr(L["ts"], p) for p in pts]
            amap = TiledStridedLayoutAttr(tsl).get_affine_map()
            allp = pts + case["pts"]
            for p in allp:
                v = amap.eval(p, [])[0]
                if v != ref_addr(L["ts"], p):
                    fail(f"affine map gives {v} at {p}, layout address is {ref_addr(L['ts'], p)}")
                    break
            c = tsl.canonicalize()
            Lc = of_tsl(c)
            if c.offset != tsl.offset:
                fail("canonicalize changed the offset")
            if not is_pos(Lc) or shape_of(Lc) != sh:
                fail(f"canonicalize changed the logical shape: {tsl} -> {c}")
            else:
                for p, r in zip(pts, ref):
                    if any(i >= n for i, n in zip(p, sh)):
                        continue        # canonicalisation preserves the function on the box only
                    if ref_addr(Lc["ts"], p) != r:
                        fail(f"canonicalize changed the address of {p}: {tsl} -> {c}")
                        break
            if case["enum"] and size(sh) <= ENUM_CAP:
                av = impl_out["all_values"]
                if av != ref:
                    fail(f"all_values is not the row-major enumeration of the layout addresses: {tsl}")
                inj = len(set(ref)) == len(ref)
                if impl_out["self_overlaps"] != (not inj):
                    fail(f"self_overlaps={impl_out['self_overlaps']} but injective={inj}: {tsl}")
                dense = sorted(ref) == list(range(len(ref)))
                if impl_out["is_dense"] != dense:
                    fail(f"is_dense={impl_out['is_dense']} but addresses {'do' if dense else 'do not'} fill 0..n-1: {tsl}")
        elif k == "from_strides":
            if "raised" in impl_out:
                # zip() truncates, nothing in from_strides can raise on int|None entries
                fail(f"from_strides raised {impl_out['raised']}")
                return bad
            st, tb = case["strides"], case["tile_bounds"]
            ok = all(s is not None and s > 0 for s in st) and all(
                t and all(b is not None and b > 0 for b in t) for t in tb) and len(st) == len(tb)
            if ok:
                if [[b for _, b in t] for t in impl_out["ts"]] != tb:
                    fail("from_strides: tile bounds differ from the request")
                elif impl_out["offset"] != case["offset"]:
                    fail("from_strides dropped the offset")
                else:
                    sh = shape_of(impl_out)
                    rng = random.Random(len(str(case)))
                    pts = box(sh) if size(sh) <= 512 else [[rng.randrange(s) for s in sh] for _ in range(64)]
                    pts.append([s + 3 for s in sh])
                    for p in pts:
                        want = sum(s * i for s, i in zip(st, p))
                        if ref_addr(impl_out["ts"], p) != want:
                            fail(f"from_strides({st},{tb}): address of {p} is {ref_addr(impl_out['ts'], p)}, strides give {want}")
                            break
        elif k == "resolve":
            L = case["layout"]
            if "raised" in impl_out:
                fail(f"bound/step ops raised {impl_out['raised']}: {impl_out.get('msg')}")
                return bad
            wellformed = all(t and all(s not in (0,) and b not in (0,) for s, b in t) and all(
                s is not None and b is not None for s, b in t[1:]) for t in L["ts"])
            if not wellformed:
                return bad
            bs, ss = impl_out["bounds"], impl_out["steps"]
            if isinstance(bs, dict) or isinstance(ss, dict):
                fail(f"bound/step ops raised on a well-formed layout: {impl_out}")
                return bad
            for d, t in enumerate(L["ts"]):
                inner = 1
                for _, b in t[1:]:
                    inner *= b
                for kk, (s, b) in enumerate(t):
                    if b is not None and bs[d][kk] != b:
                        fail(f"static bound ({d},{kk}) evaluates to {bs[d][kk]}, literal is {b}")
                    if s is not None and ss[d][kk] != s * case["el"]:
                        fail(f"static step ({d},{kk}) evaluates to {ss[d][kk]}, literal is {s}*{case['el']}")
                if t[0][1] is None and case["shape"][d] % inner == 0 and bs[d][0] * inner != case["shape"][d]:
                    fail(f"dynamic bound of dim {d}: {bs[d][0]}*{inner} != {case['shape'][d]}")
            if bad:
                return bad
            el = case["el"]
            se = impl_out["steps_el"]
            if isinstance(se, dict):
                fail(f"step ops (in elements) raised on a well-formed layout: {se}")
                return bad
            txt = f"`{to_tsl(L)}` at shape {case['shape']}, {8 * el}-bit elements"
            # (a) steps in bytes = element size x steps in elements, for every tile (static and dynamic)
            for d, t in enumerate(L["ts"]):
                for kk in range(len(t)):
                    if ss[d][kk] != el * se[d][kk]:
                        fail(f"step ({d},{kk}) of {txt} is {ss[d][kk]} bytes but {se[d][kk]} elements "
                             f"(expected {el}*{se[d][kk]}={el * se[d][kk]})")
                        return bad
            dynamic = [(d, kk) for d, t in enumerate(L["ts"]) for kk, (s, _) in enumerate(t) if s is None]
            static = [(d, kk) for d, t in enumerate(L["ts"]) for kk, (s, _) in enumerate(t) if s is not None]
            if not is_static(L):
                self.canon_dynamic(case, impl_out, fail, txt)
            if not dynamic:
                return bad
            if not static:
                # no static step to anchor the chain: row-major default (the right-most tile is contiguous);
                # the tree without fix FC10a yields 0 everywhere (finding C10-N1)
                want, cur = {}, 1
                for d in reversed(range(len(L["ts"]))):
                    for kk in reversed(range(len(L["ts"][d]))):
                        want[(d, kk)] = cur
                        cur *= bs[d][kk]
                got = {pos: se[pos[0]][pos[1]] for pos in dynamic}
                if got != want and all(b > 0 for bt in bs for b in bt):
                    if all(v == 0 for v in got.values()):
                        fail(f"every step of the all-dynamic layout {txt} resolves to 0", "C10-N1")
                    else:
                        fail(f"the all-dynamic layout {txt} resolves to steps {got}, row-major is {want}")
                return bad
            # (b) contiguity convention: dynamic step = largest static step x its extent x the extents of the
            # dynamic tiles to its right/inside; ties between equal largest steps may be broken either way
            top = max(L["ts"][d][kk][0] for d, kk in static)
            cands = [chain_steps(L, bs, pos) for pos in static if L["ts"][pos[0]][pos[1]][0] == top]
            got = {pos: se[pos[0]][pos[1]] for pos in dynamic}
            if got not in cands:
                fail(f"dynamic steps of {txt} are {got} elements, the contiguity convention gives {cands[0]}")
                return bad
            if {pos: ss[pos[0]][pos[1]] for pos in dynamic} not in [{p: el * v for p, v in c.items()} for c in cands]:
                fail(f"dynamic steps of {txt} in bytes are not {el} x the contiguity chain {cands[0]}")
                return bad
            # (c) where the static tiles are one-to-one below the chain's seed, the resolved (bound, step) pairs
            # are one-to-one on the runtime box, in elements and in bytes
            seed = min(c[min(c, key=lambda p: c[p])] for c in cands)
            sb = [[bs[d][kk] for kk in range(len(t)) if t[kk][0] is not None] for d, t in enumerate(L["ts"])]
            st = [[t[kk][0] for kk in range(len(t)) if t[kk][0] is not None] for d, t in enumerate(L["ts"])]
            span = sum((b - 1) * s_ for bt, stt in zip(sb, st) for b, s_ in zip(bt, stt))
            if all(b > 0 for bt in bs for b in bt) and span < seed and injective_on_box(sb, st, ENUM_CAP):
                for unit, steps in (("elements", se), ("bytes", ss)):
                    if injective_on_box(bs, steps, ENUM_CAP) is False:
                        fail(f"the resolved bounds {bs} and steps {steps} ({unit}) of {txt} map two indices of the "
                             f"runtime box to the same address")
                        break
        elif k == "subview_module":
            if "raised" in impl_out:
                fail(f"convert-memref-to-arith raised {impl_out['raised']} on a module with several pointers: {impl_out.get('msg')}")
                return bad
            for i, (it, r) in enumerate(zip(case["items"], impl_out["results"])):
                if it["src"] != "tsl":
                    if "ptr" in r:
                        fail(f"pointer #{i} ({it['src']}: not a subview of a TSL memref) was rewritten by the pass")
                    continue
                if "ptr" not in r:
                    fail(f"pointer #{i} (subview of a TSL memref) was not lowered in a module with {len(case['items'])} pointers")
                    continue
                # (a) the k-th pointer of a module is the pointer the pass computes for that subview alone
                alone = exc(lambda it=it: subview_real(it["layout"], it["el"], it["shape"], it["offs"], it["dyn"], it["base"]))
                if alone != r["ptr"]:
                    fail(f"pointer #{i} of the module is {r['ptr']}, the same subview alone lowers to {alone}")
                bad.extend(self.oracle(dict(it, kind="subview"), {"ptr": r["ptr"]}))
        elif k == "helpers":
            if "raised" in impl_out:
                fail(f"a helper raised {impl_out['raised']}: {impl_out.get('msg')}")
                return bad
            L = case["layout"]
            if not impl_out["hash_consistent"]:
                fail("two equal TiledStridedLayoutAttr have different hashes (or are unequal)")
            if not impl_out["eq_foreign"]:
                fail("a Stride compares equal to a tuple")
            if not impl_out["equal_tb_self"]:
                fail("equal_tile_bounds(self) is False")
            if impl_out["equal_tb"] != ([[b for _, b in t] for t in L["ts"]] == [[b for _, b in t] for t in case["other"]["ts"]]):
                fail("equal_tile_bounds disagrees with the tile bounds of the two layouts")
            if impl_out["ts_dynamic"] != [any(s_ is None or b is None for s_, b in t) for t in L["ts"]]:
                fail("TiledStride.is_dynamic disagrees with the entries")
            for t, row in zip(L["ts"], impl_out["get_stride"]):
                if row != [t[d] if d < len(t) else None for d in range(len(row))]:
                    fail(f"get_stride returns {row} for {t}")
            if impl_out["strides_str"] != [f"{'?' if b is None else b} -> {'?' if s_ is None else s_}" for t in L["ts"] for s_, b in t]:
                fail("Stride.__str__ does not print `bound -> step`")
        elif k == "module_rt":
            if "raised" in impl_out:
                fail(f"a module with {len(case['layouts'])} tsl attributes does not parse/print: {impl_out['raised']} {impl_out.get('msg')}")
                return bad
            if impl_out["layouts"] != case["layouts"]:
                fail(f"layouts parsed from one module differ from the layouts printed into it: {impl_out['layouts']} vs {case['layouts']}")
            if not impl_out["print_fixed_point"]:
                fail("printing a parsed module, parsing that and printing again gives a different text")
        elif k == "resolve_strided":
            if "raised" in impl_out:
                fail(f"bound/step ops on a strided memref raised {impl_out['raised']}: {impl_out.get('msg')}")
                return bad
            if case.get("layout") is not None:
                return bad      # arbitrary TSL on a strided memref: correspondence only
            st, tb = case["strides"], case["tile_bounds"]
            ok = all(x is None or x > 0 for x in st) and all(
                t and (t[0] is None or t[0] > 0) and all(b is not None and b > 0 for b in t[1:]) for t in tb)
            if not ok:
                return bad
            bs, ss = impl_out["bounds"], impl_out["steps"]
            if isinstance(bs, dict) or isinstance(ss, dict) or ss is None:
                fail(f"bound/step ops raised on from_strides({st}, {tb}) of a strided memref: {bs} {ss}")
                return bad
            el = case["el_size"]
            unit = el if case["in_bytes"] else 1
            txt = (f"from_strides({st}, {tb}) on memref<…x i{8 * el}, strided<{case['type_strides']}>> at shape "
                   f"{case['shape']}, run-time strides {case['meta']}, in_bytes={case['in_bytes']}")
            # a layout built from plain strides means the plain strides: element i of dimension d lies at
            # (run-time stride of d) * i, so tile k of dimension d steps by stride_d * (product of the inner bounds)
            for d, t in enumerate(tb):
                inner = 1
                for b in t[1:]:
                    inner *= b
                want_b = [t[0] if t[0] is not None else case["shape"][d] // inner] + t[1:]
                if bs[d] != want_b:
                    fail(f"bounds of dim {d} are {bs[d]}, expected {want_b}: {txt}")
                    return bad
                for kk in range(len(t)):
                    below = 1
                    for b in t[kk + 1:]:
                        below *= b
                    want = case["meta"][d] * below * unit
                    if ss[d][kk] != want:
                        what = (f"step ({d},{kk}) is {ss[d][kk]}, the plain stride {case['meta'][d]} x inner bounds {below} x "
                                f"unit {unit} is {want}: {txt}")
                        # finding C10-N4: the metadata strides are multiplied by the element size even when the
                        # steps are requested in elements
                        n4 = (not case["in_bytes"]) and st[d] is None and ss[d][kk] == want * el
                        fail(what, "C10-N4" if n4 else None)
                        return bad
        elif k == "parse":
            if "raised" in impl_out:
                return bad
            # whatever parses must print to something that parses back to the same layout
            L = impl_out
            if all(s != 0 and b != 0 for t in L["ts"] for s, b in t) and L["ts"]:
                txt = str(to_tsl(L))
                back = exc(lambda: parse_attr(txt))
                if isinstance(back, dict):
                    fail(f"`{txt}` (printed from a parsed layout) does not parse", "D9" if L["offset"] is None else None)
                elif of_tsl(back) != L:
                    fail(f"print/parse round trip changed the layout `{txt}`")
        elif k == "subview":
            L = case["layout"]
            if "raised" in impl_out:
                fail(f"convert-memref-to-arith raised {impl_out['raised']}: {impl_out.get('msg')}")
                return bad
            vals = iter(case["dyn"])
            offs = [next(vals) if o is None else o for o in case["offs"]]
            aligned = True
            ts = []
            for t, o in zip(L["ts"], offs):
                inner = 1
                for _, b in t[1:]:
                    inner *= b
                aligned &= o % inner == 0
                ts.append([[t[0][0], t[0][1] or (o // inner + 1)]] + t[1:])
            want = case["base"] + case["el"] * ref_addr(ts, offs)
            if impl_out["ptr"] != want:
                what = (f"subview pointer is {impl_out['ptr']} (base={case['base']}), the element at {offs} of `{to_tsl(L)}` "
                        f"is at base+{want - case['base']}")
                if not aligned:
                    # D23b loses exactly the inner digits (theorem subviewPtr_floor): the pointer is the address of
                    # the offsets rounded down to their tiles; anything else is a new violation
                    inners = []
                    for t in L["ts"]:
                        inner = 1
                        for _, b in t[1:]:
                            inner *= b
                        inners.append(inner)
                    floor = case["base"] + case["el"] * ref_addr(ts, [o // i * i for o, i in zip(offs, inners)])
                    fail(what + " (offset not a multiple of the inner tile)", "D23b" if impl_out["ptr"] == floor else None)
                else:
                    fail(what, "D23" if all(o is not None for o in case["offs"]) or any(
                        o not in (None, 0) for o in case["offs"]) else None)
        return bad

    def canon_dynamic(self, case, impl_out, fail, txt):
        """canonicalize() must not change the function of a dynamic layout either: both forms are resolved at the
        same runtime shape and compared as static layouts on the whole runtime box."""
        L = case["layout"]
        bs, se = impl_out["bounds"], impl_out["steps_el"]
        cb, cs = impl_out.get("canon_bounds"), impl_out.get("canon_steps_el")
        if cb is None or cs is None or isinstance(cb, dict) or isinstance(cs, dict):
            fail(f"bound/step ops raised on the canonical form of {txt}: {cb} {cs}")
            return
        if not all(b > 0 for bt in bs + cb for b in bt):
            return
        R = [[[s_, b] for s_, b in zip(st, bt)] for st, bt in zip(se, bs)]
        Rc = [[[s_, b] for s_, b in zip(st, bt)] for st, bt in zip(cs, cb)]
        sh, shc = shape_of({"ts": R}), shape_of({"ts": Rc})
        what = None
        if sh != shc:
            what = f"runtime shape {sh} -> {shc}"
        else:
            if size(sh) <= ENUM_CAP:
                pts = box(sh)
            else:
                r2 = random.Random(size(sh))
                pts = [[r2.randrange(n) for n in sh] for _ in range(256)] + [[n - 1 for n in sh]]
            for pnt in pts:
                if ref_addr(R, pnt) != ref_addr(Rc, pnt):
                    what = f"element {pnt} moves from {ref_addr(R, pnt)} to {ref_addr(Rc, pnt)}"
                    break
        if what is None:
            return
        Lc = of_tsl(to_tsl(L).canonicalize())

        def seed(X, steps):
            """the seed of the dynamic chain as observed: the step of the first dynamic tile from the right"""
            for d in reversed(range(len(X["ts"]))):
                for kk in reversed(range(len(X["ts"][d]))):
                    if X["ts"][d][kk][0] is None:
                        return steps[d][kk]
            return None
        # finding C10-N3: dropping a unit tile / squashing may change which static step is the largest (or its
        # extent), and with it the seed of the dynamic chain (theorem canonicalize_dynamic_partial, clause
        # seedPreserved); a difference with equal seeds is a new violation
        s0, s1 = seed(L, se), seed(Lc, cs)
        fid = "C10-N3" if s0 is not None and s1 is not None and s0 != s1 else None
        fail(f"canonicalize changes the meaning of {txt}: `{to_tsl(Lc)}` resolves to steps {cs} instead of {se}; {what}", fid)

    def nontrivial(self, case, impl_out):
        L = case.get("layout")
        if L is not None:
            return any(len(t) >= 2 for t in L["ts"]) or not is_static(L)
        if case["kind"] == "from_strides":
            return any(len(t) >= 2 for t in case["tile_bounds"])
        return not (isinstance(impl_out, dict) and "raised" in impl_out)

    def stats_key(self, case, impl_out):
        k = case["kind"]
        if isinstance(impl_out, dict) and "raised" in impl_out:
            return f"{k}:raised:{impl_out['raised']}"
        L = case.get("layout")
        if L is not None:
            return f"{k}:{'static' if is_static(L) else 'dynamic'}:rank{len(L['ts'])}"
        return k

    def shrink(self, case):
        L = case.get("layout")
        if L is None:
            if case["kind"] == "parse":
                t = case["text"]
                for i in range(len(t)):
                    yield dict(case, text=t[:i] + t[i + 1:])
            return
        if case["kind"] == "resolve_strided" and case.get("layout") is None:
            n = len(case["strides"])
            for d in range(n):
                if n > 1:
                    yield dict(case, **{kk: case[kk][:d] + case[kk][d + 1:]
                                        for kk in ("strides", "tile_bounds", "type_strides", "shape", "meta")})
                tb = case["tile_bounds"][d]
                if len(tb) > 2:
                    inner = tb[-1] or 1
                    yield dict(case, tile_bounds=case["tile_bounds"][:d] + [tb[:-1]] + case["tile_bounds"][d + 1:],
                               shape=case["shape"][:d] + [max(1, case["shape"][d] // inner)] + case["shape"][d + 1:])
            if case["offset"] != 0:
                yield dict(case, offset=0)
            return
        if case["kind"] == "resolve":
            ts = L["ts"]
            for d in range(len(ts)):
                if len(ts) > 1:
                    yield dict(case, layout=dict(L, ts=ts[:d] + ts[d + 1:]), shape=case["shape"][:d] + case["shape"][d + 1:])
                if len(ts[d]) > 1:
                    inner = ts[d][-1][1] or 1
                    yield dict(case, layout=dict(L, ts=ts[:d] + [ts[d][:-1]] + ts[d + 1:]),
                               shape=case["shape"][:d] + [max(1, case["shape"][d] // inner)] + case["shape"][d + 1:])
            if L["offset"] != 0:
                yield dict(case, layout=dict(L, offset=0))
            return
        if case["kind"] != "views":
            return
        ts = L["ts"]
        for d in range(len(ts)):
            if len(ts) > 1:
                L2 = dict(L, ts=ts[:d] + ts[d + 1:])
                yield dict(case, layout=L2, pts=[p[:d] + p[d + 1:] for p in case["pts"]])
            for kk in range(len(ts[d])):
                if len(ts[d]) > 1:
                    L2 = dict(L, ts=ts[:d] + [ts[d][:kk] + ts[d][kk + 1:]] + ts[d + 1:])
                    yield dict(case, layout=L2, pts=[])
                s, b = ts[d][kk]
                for s2, b2 in ((s, b - 1 if b and b > 1 else b), (1 if s else s, b), (s // 2 if s and s > 1 else s, b)):
                    if (s2, b2) != (s, b):
                        L2 = dict(L, ts=ts[:d] + [ts[d][:kk] + [[s2, b2]] + ts[d][kk + 1:]] + ts[d + 1:])
                        yield dict(case, layout=L2, pts=[])
        if L["offset"] != 0:
            yield dict(case, layout=dict(L, offset=0))


PROP = C10()
