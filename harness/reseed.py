"""Re-run the checks against every recorded seeded change and print a table (uses scratch worktrees, /repo untouched)."""
import json, os, subprocess, sys
V = os.path.dirname(os.path.dirname(os.path.abspath(__file__)))
only = sys.argv[1:]
rows = []
for d in sorted(os.listdir(os.path.join(V, "seeded"))):
    if only and not any(d.startswith(o) for o in only):
        continue
    m = json.load(open(os.path.join(V, "seeded", d, "meta.json")))
    props = list(m.get("checks", {}).keys()) or [m["property"]]
    subprocess.run(["/venv/bin/python", "harness/verify_seed.py", os.path.join(V, "seeded", d), d, *props], cwd=V, capture_output=True, text=True)
    m = json.load(open(os.path.join(V, "seeded", d, "meta.json")))
    for p, c in m.get("checks", {}).items():
        kind = "missed" if c["exit"] == 0 else ("impl-violation" if c["violation_lines"] and "no-failing-input-found" not in c["violation_lines"][0] else "no-failing-input-found")
        print(f"{d} {p} confirmed={m.get('confirmed')} exit={c['exit']} {kind} | {c.get('what','')[:110]}", flush=True)
