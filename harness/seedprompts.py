"""seedprompts.py <round> : create one scratch worktree of /repo per property under /tmp/seed<round>/cXX and write the prompt a
fresh seeding sub-agent gets (property text only + what earlier rounds already used; nothing from /verif is visible to it)."""
import json, os, subprocess, sys
V = os.path.dirname(os.path.dirname(os.path.abspath(__file__)))
rnd = sys.argv[1]
only = sys.argv[2:]
root = f"/tmp/seed{rnd}"
os.makedirs(root, exist_ok=True)
taken = {}
for d in sorted(os.listdir(os.path.join(V, "seeded"))):
    mf = os.path.join(V, "seeded", d, "meta.json")
    if not os.path.exists(mf):
        continue
    try:
        m = json.load(open(mf))
    except ValueError:  # being rewritten by a running reseed
        m = json.loads(subprocess.run(["git", "-C", V, "show", f"HEAD:seeded/{d}/meta.json"], capture_output=True, text=True).stdout)
    t = " ".join((m.get("needs_to_manifest") or "").split())[:230]
    taken.setdefault(m["property"], []).append(t)
for line in open(os.path.join(V, "properties.jsonl")):
    p = json.loads(line)
    pid = p["id"]
    if only and pid not in only:
        continue
    wt = f"{root}/c{pid[1:]}"
    if not os.path.isdir(wt):
        subprocess.run(["git", "-C", "/repo", "worktree", "add", "-q", "--detach", wt, "HEAD"], check=True)
    files = ", ".join(sorted({a.get("file", a) if isinstance(a, dict) else str(a) for a in p.get("anchors", [])}))
    prev = "\n".join(f" - {t}" for t in taken.get(pid, []))
    txt = f"""You are a software engineer asked to SEED A DEFECT into the Python compiler KULeuven-MICAS/snax-mlir, for a study of how
well verification tools detect realistic regressions. You get one behavioural property of the code base and your own scratch git
worktree of the repository: {wt} (work ONLY there; do not read or touch /verif, /work or /repo).

THE PROPERTY (the code base currently satisfies it, except for documented edge cases):
{pid} — {p['title']}
{p['statement']}
Quantifier: {p['quantifier']}
Relevant files: {files}

ALREADY TAKEN — other engineers have seeded these for the same property in {int(rnd) - 1} earlier rounds; produce changes of a DIFFERENT kind,
at different sites or mechanisms. By now the obvious sites are used up: look for (a) code that runs BEFORE or AFTER the listed files in
the real flow and on which the property silently depends (the pass pipeline in snaxc/tools and snaxc/transforms/__init__.py, dialect
verifiers, canonicalisation patterns, attribute/type constructors, op constructors and custom printers/parsers, helper modules in
snaxc/util, snaxc/ir and snaxc/inference, accelerator descriptions under snaxc/accelerators and snaxc/phs), (b) the interaction of
two passes or of two features that each look fine alone, (c) state kept across calls/instances (class attributes, caches, mutable
default arguments, generators consumed once), (d) Python-level slips (operator precedence, `is` vs `==`, truthiness of 0/None/empty,
integer division and modulo of negative numbers, mutation of a shared list/array/attribute, iteration order of sets/dicts, shallow
copies, early `return`/`continue`/`break`, exception swallowed, zip() truncation, off-by-one in slices, default arguments), (e) a
numeric or shape corner that only one accelerator / configuration / nesting depth / element width / trip count reaches, (f) a
behaviour that is only wrong for the SECOND occurrence (second operation, second loop, second accelerator, second function of a module):
{prev}

YOUR TASK: produce TWO different, independent changes to the source code under {wt}/snaxc (not the tests) such that each change
 (a) breaks the property above (the observable behaviour it describes becomes wrong for some input),
 (b) still imports/compiles and passes the existing test suite unchanged:  cd {wt} && /venv/bin/python -m pytest -q -p no:cacheprovider tests
     add --continue-on-collection-errors; it must report exactly "68 passed" (7-9 collection errors are environmental and expected, also on the unchanged tree),
 (c) looks like a plausible regression a developer could introduce (a refactoring slip, an off-by-one, a dropped or weakened guard, a
     wrong operand/order, a wrong default, an optimisation that is not always valid, two sites that each look fine alone…),
 (d) needs something SPECIFIC to manifest — an unusual input, a particular shape/size/trip count/branch outcome/ordering, a multi-step
     sequence, a configuration corner — i.e. NOT something every ordinary use would expose at once and not something the 68 tests hit.
For each change write a demonstration: a small stand-alone Python program that exits 0 on the unchanged tree and non-zero (assert/exit 1)
with the change applied, exercising the REAL code (import it; see the environment notes).

Environment notes: use /venv/bin/python. Most snaxc modules only import after the environment shim: in your demo do
  import os, sys; os.environ.setdefault("SNAX_REPO", "{wt}"); sys.path.insert(0, "/tmp/seedtools"); import shim
before importing snaxc (shim.run_passes(mlir_text, "pass-a,pass-b") runs snax-opt passes in-process; filecheck inputs under
{wt}/tests/filecheck show the textual input forms of each pass). The demo must take the tree from the SNAX_REPO environment variable
(default {wt}) so that it can be run against another checkout. No network.

DELIVERABLES (exact paths):
  {wt}/out/m1/patch.diff   (output of `git -C {wt} diff` with ONLY change 1 applied), {wt}/out/m1/demo.py, {wt}/out/m1/notes.md
  {wt}/out/m2/patch.diff, {wt}/out/m2/demo.py, {wt}/out/m2/notes.md      (change 2, independent of change 1)
notes.md: 5-10 lines — what was changed, why it breaks the property, what exactly is needed for it to manifest, and the commands you ran
(test suite result with the change; demo result with and without the change).
Leave the worktree CLEAN at the end (git -C {wt} checkout -- snaxc ; the out/ directory stays, it is untracked).
Verify everything yourself before finishing: apply patch, run tests (68 passed), run demo (fails); revert, run demo (passes).
Your final message: 6 lines max per change (file/function touched, one-line description, what it needs to manifest).
"""
    open(f"{root}/c{pid[1:]}.prompt.txt", "w").write(txt)
    print(pid, wt, len(taken.get(pid, [])), "taken")
