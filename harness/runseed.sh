#!/bin/bash
# runseed.sh <seed id> <PROP> [VERIF_SEED] : apply seeded patch in scratch worktree, run quick check, print outcome
sid=$1; P=$2; seed=${3:-0}
wt=/tmp/rs_$$; git -C /repo worktree add -q --detach $wt HEAD; git -C $wt apply /verif/seeded/$sid/patch.diff || echo APPLY-FAILED
cd /verif; SNAX_REPO=$wt VERIF_SEED=$seed VERIF_EVIDENCE_DIR=$wt/.ev /venv/bin/python harness/check.py $P --tier quick 2>&1 | grep -E "^\[|VIOLATION" | cut -c1-300
git -C /repo worktree remove --force $wt
