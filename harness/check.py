#!/venv/bin/python
"""Entry point: check.py Cxx [--tier quick|thorough] [--replay path]   (cwd = /verif)"""
import argparse
import importlib
import os
import sys

sys.path.insert(0, os.path.dirname(os.path.abspath(__file__)))


def main():
    ap = argparse.ArgumentParser()
    ap.add_argument("prop")
    ap.add_argument("--tier", default=os.environ.get("VERIF_TIER", "quick"), choices=["quick", "thorough"])
    ap.add_argument("--replay", default=None)
    a = ap.parse_args()
    seed = int(os.environ.get("VERIF_SEED", "0") or 0)
    import compat  # noqa: F401  (shim first)
    import framework
    try:
        mod = importlib.import_module(f"props.{a.prop.lower()}")
    except (ImportError, SyntaxError) as e:
        import traceback
        traceback.print_exc()
        print(f"INFRA: cannot load check for {a.prop}: {e}")
        return 2
    prop = mod.PROP
    try:
        return framework.run_check(prop, a.tier, seed, a.replay)
    except (ImportError, SyntaxError, MemoryError) as e:
        import traceback
        traceback.print_exc()
        print(f"INFRA: {type(e).__name__}: {e}")
        return 2


if __name__ == "__main__":
    sys.exit(main())
