"""Markdown table of the seeded changes and which check catches them, from seeded/*/meta.json (+ first line of notes.md)."""
import json, os, re, sys
root = os.path.join(os.path.dirname(os.path.dirname(os.path.abspath(__file__))), "seeded")
rows = []
hist = json.load(open(os.path.join(root, "HISTORY.json"))) if os.path.exists(os.path.join(root, "HISTORY.json")) else {}
for sid in sorted(os.listdir(root)):
    mp = os.path.join(root, sid, "meta.json")
    if not os.path.exists(mp):
        continue
    m = json.load(open(mp))
    title = m.get("summary") or ""
    if not title:
        np_ = os.path.join(root, sid, "notes.md")
        if os.path.exists(np_):
            for l in open(np_):
                l = l.strip().lstrip("#").strip()
                if l:
                    title = re.sub(r"^(C\d+\s*/\s*)?(change|seed|mutation)\s*\d*\s*[—:\-]*\s*", "", l, flags=re.I)
                    break
    caught = []
    for p, c in (m.get("checks") or {}).items():
        if c.get("exit") == 0:
            kind = "missed"
        elif c.get("violation_lines") and "no-failing-input-found" in c["violation_lines"][0]:
            kind = "no-failing-input-found"
        else:
            kind = "impl-violation"
        caught.append(f"{p}: {kind}")
    rows.append(f"| {sid} | {title[:150].replace('|', '/')} | {'; '.join(caught)} | {hist.get(sid, '')} |")
print("| seed | change | result of the checks (quick tier, patch applied) | history |\n|---|---|---|---|")
print("\n".join(rows))
