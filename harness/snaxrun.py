"""Run the real snax-opt passes in-process (shared by all pass-based checks)."""
import contextlib
import io

import compat  # noqa: F401
from xdsl.parser import Parser
from xdsl.printer import Printer

_CTX = None


def ctx():
    """A context with every dialect snax-opt registers (unregistered ops allowed)."""
    global _CTX
    if _CTX is None:
        from snaxc.tools.snax_opt_main import SNAXOptMain
        _CTX = SNAXOptMain(args=["/dev/null", "--allow-unregistered-dialect"]).ctx
    return _CTX


def fresh_ctx():
    from snaxc.tools.snax_opt_main import SNAXOptMain
    return SNAXOptMain(args=["/dev/null", "--allow-unregistered-dialect"]).ctx


def parse(src: str):
    return Parser(fresh_ctx(), src).parse_module()


def text(op) -> str:
    s = io.StringIO()
    Printer(stream=s).print_op(op)
    return s.getvalue()


def run_passes(src: str, passes: str, extra=()) -> str:
    """Equivalent of `snax-opt -p <passes>` on MLIR text; returns the printed module. Exceptions propagate."""
    import os
    import tempfile
    from snaxc.tools.snax_opt_main import SNAXOptMain
    with tempfile.NamedTemporaryFile("w", suffix=".mlir", delete=False) as f:
        f.write(src)
        fn = f.name
    out = io.StringIO()
    try:
        with contextlib.redirect_stdout(out), contextlib.redirect_stderr(io.StringIO()):
            SNAXOptMain(args=[fn, "-p", passes, "--allow-unregistered-dialect", *extra]).run()
    finally:
        os.unlink(fn)
    return out.getvalue()


def apply_pass(module, pass_obj):
    """Apply one ModulePass instance to a parsed module in place."""
    pass_obj.apply(fresh_ctx(), module)
    return module


def path_of(op):
    """Position of an op as a list of (region index, op index) from the top-level op down."""
    p = []
    while op.parent_op() is not None:
        blk = op.parent_block()
        reg = blk.parent_region()
        par = op.parent_op()
        p.append((list(par.regions).index(reg), list(reg.blocks).index(blk), blk.get_operation_index(op)))
        op = par
    return list(reversed(p))


def top_of(op):
    while op.parent_op() is not None:
        op = op.parent_op()
    return op


@contextlib.contextmanager
def log_greedy_steps(log: list):
    """While active, every individual rewrite performed by xDSL's greedy pattern applier is appended to
    `log` as (pattern name | 'dce', position, IR text before, IR text after). Harness side only."""
    import xdsl.pattern_rewriter as pr
    from xdsl.transforms.dead_code_elimination import is_trivially_dead
    orig = pr.GreedyRewritePatternApplier.match_and_rewrite

    def wrapped(self, op, rewriter):
        if len(log) > 3000:
            # (harness-side guard) the greedy driver keeps rewriting: an observable outcome of the pass, like an exception
            raise RuntimeError("the greedy pattern driver performed more than 3000 rewrites on one module (no fixed point)")
        top = top_of(op)
        if getattr(self, "dce_enabled", False) and is_trivially_dead(op):
            before = text(top)
            p = path_of(op)
            rewriter.erase(op)
            log.append(("dce", p, before, text(top), None))
            return
        if (getattr(self, "folding_enabled", False)
                and op.has_trait(pr.HasFolder, value_if_unregistered=False)
                and not op.has_trait(pr.ConstantLike, value_if_unregistered=True)):
            if self.ctx is None:
                raise ValueError("Context is required for folding")
            before = text(top)
            p = path_of(op)
            folded = pr.Folder(self.ctx).try_fold(op)
            if folded is not None:
                folded_values, folded_ops = folded
                rewriter.replace(op, new_ops=folded_ops, new_results=folded_values)
                log.append(("fold", p, before, text(top), None))
                return
        for pat in self.rewrite_patterns:
            before = text(top)
            p = path_of(op)
            blk = op.parent_block()
            ids_before = [id(o) for o in blk.ops] if blk is not None else None
            pat.match_and_rewrite(op, rewriter)
            if rewriter.has_done_action:
                # if the rewrite only reordered the ops of the matched op's block: after-position -> before-position
                perm = None
                if ids_before is not None and op.parent_block() is blk:
                    ids_after = [id(o) for o in blk.ops]
                    if sorted(ids_after) == sorted(ids_before):
                        pos = {x: i for i, x in enumerate(ids_before)}
                        perm = [pos[x] for x in ids_after]
                log.append((type(pat).__name__, p, before, text(top), perm))
                return

    pr.GreedyRewritePatternApplier.match_and_rewrite = wrapped
    try:
        yield log
    finally:
        pr.GreedyRewritePatternApplier.match_and_rewrite = orig
