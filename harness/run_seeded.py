"""Run checks against a seeded change without touching /repo: the patch is applied to a scratch worktree of /repo's HEAD and the
checks import the code from there (SNAX_REPO). Usage: run_seeded.py <patch.diff> <Cxx> [<Cyy> …] [--tier quick|thorough]"""
import os, subprocess, sys, tempfile, shutil
patch = os.path.abspath(sys.argv[1])
tier = "quick"
props = []
args = sys.argv[2:]
while args:
    a = args.pop(0)
    if a == "--tier":
        tier = args.pop(0)
    else:
        props.append(a)
VERIF = os.path.dirname(os.path.dirname(os.path.abspath(__file__)))
wt = tempfile.mkdtemp(prefix="mut_", dir="/tmp")
os.rmdir(wt)
subprocess.check_call(["git", "-C", "/repo", "worktree", "add", "-q", "--detach", wt, "HEAD"])
try:
    r = subprocess.run(["git", "-C", wt, "apply", patch], capture_output=True, text=True)
    if r.returncode != 0:
        print("PATCH DOES NOT APPLY:", r.stderr[:500])
        sys.exit(3)
    for p in props:
        env = dict(os.environ, SNAX_REPO=wt, VERIF_EVIDENCE_DIR=wt + "/.evidence")
        r = subprocess.run(["/venv/bin/python", "harness/check.py", p, "--tier", tier], cwd=VERIF, env=env, capture_output=True, text=True)
        lines = [l for l in r.stdout.split("\n") if l.startswith("VIOLATION") or l.startswith("[") or l.startswith("INFRA")]
        print(f"{p}: exit={r.returncode}")
        for l in lines[:6]:
            print("   ", l[:260])
finally:
    subprocess.call(["git", "-C", "/repo", "worktree", "remove", "--force", wt])
