"""setup-time smoke test: shim imports, driver answers."""
import sys, os
sys.path.insert(0, os.path.dirname(os.path.abspath(__file__)))
import compat  # noqa
import leandrv
from snaxc.tools.snax_opt_main import SNAXOptMain  # noqa
r = leandrv.run_batch([{"fn": "c19.canon", "args": {"e": ["+", ["c", 1], ["d", 0]], "fuel": 10}}])
assert r == [{"ok": ["+", ["d", 0], ["c", 1]]}], r
print("selftest ok")
