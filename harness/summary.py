"""Prints a markdown status table from the per-property registration files (used to refresh DESIGN.md section 8)."""
import json, os, glob
V = os.path.dirname(os.path.dirname(os.path.abspath(__file__)))
kf = json.load(open(os.path.join(V, "known_findings.json")))["findings"]
print("| prop | obligations | open findings | fixed findings (commit) | quick cases | wall s |")
print("|---|---|---|---|---|---|")
for i in range(1, 21):
    p = f"C{i:02d}"
    of = os.path.join(V, "obligations", p + ".json")
    if not os.path.exists(of):
        print(f"| {p} | – | | | | |"); continue
    o = json.load(open(of))
    op = [f["id"] for f in kf if f["property"] == p and f["status"] == "open"]
    fx = [f"{f['id']} ({f.get('commit')})" for f in kf if f["property"] == p and f["status"] == "fixed"]
    ev = {}
    ef = os.path.join(V, "evidence", p + ".json")
    if os.path.exists(ef):
        ev = json.load(open(ef))
    print(f"| {p} | {len(o['theorems'])} | {', '.join(op)} | {', '.join(fx)} | {ev.get('coverage', {}).get('evaluations', '')} | {ev.get('wall_s', '')} |")
