"""Turns a doc comment directly in front of `mutual` into a plain comment (Lean rejects it)."""
import re, sys
for p in sys.argv[1:]:
    s = open(p).read()
    t = re.sub(r'/--((?:(?!-/).)*?)-/\nmutual', lambda m: '/-' + m.group(1) + '-/\nmutual', s, flags=re.S)
    if t != s:
        open(p, 'w').write(t)
