"""MANIFEST.setup_cmd: generate index files, build the Lean library + driver, smoke test."""
import os, subprocess, sys
sys.path.insert(0, os.path.dirname(os.path.abspath(__file__)))
import leandrv
ok, log, sec = leandrv.build()
print(log[-3000:])
print(f"lake build: ok={ok} {sec:.0f}s")
if not ok:
    sys.exit(1)
sys.exit(subprocess.call(["/venv/bin/python", os.path.join(os.path.dirname(os.path.abspath(__file__)), "selftest.py")]))
