"""Shared machinery of the accfg family (C01, C06, C07): program generator (MLIR text), abstract CSR
machine on xDSL IR (oracle semantics), conversion of the real IR to the Lean model's AST."""
import random
import re

import compat  # noqa: F401
import snaxrun
from xdsl.dialects import arith, builtin, func, scf
from xdsl.ir import Block, BlockArgument, Operation, SSAValue

ACCS = ["acc_a", "acc_b"]
FIELDS = {"acc_a": ["A", "B", "C"], "acc_b": ["P", "Q"]}
NARGS = 3  # i32 data arguments %x0..%x2
NBOUNDS = 2  # (lb, ub, st) triples


def st_ty(acc):
    return f'!accfg.state<"{acc}">'


class Gen:
    """Random structured accfg programs in the form every accelerator lowering emits:
    full-field setups followed by launch/await, composed with scf.for / scf.if / calls / arithmetic."""

    def __init__(self, rng: random.Random, full=True, depth=2, accs=None, launch_vals=True, prethread=False, carried=0.0):
        self.const_bounds = 0.3  # probability that a loop has constant bounds
        self.nests = True  # hide calls in setup-free control flow
        self.between = 0.25  # probability of arithmetic between a launch and its await
        self.carried = carried  # probability that a loop carries a data value / an if yields a data value
        self.r = rng
        self.n = 0
        self.full = full
        self.depth = depth
        self.accs = accs or (ACCS if rng.random() < 0.4 else ACCS[:1])
        self.launch_vals = launch_vals
        self.prethread = prethread
        self.sticky = 0.0  # probability that a setup re-uses an earlier configuration of its accelerator (0 or 1 field changed)
        self.focus = False  # nested control flow often drives only one of the accelerators
        self.scope_accs = [self.accs]
        self.cfg_hist = {}
        self.force_scope = None
        self.focus_acc = None
        self.bare = 0.0  # probability that a setup/launch statement is a bare launch on a visible state instead
        self.before = False  # the module holds ANOTHER function of the same form in front of @f (each function is compiled as if alone)
        self.callee = False  # the module DEFINES a function @h that programs the accelerators; @f calls it without annotation
        self.opaque = 0.0  # probability that an "unannotated call" statement is an opaque non-call operation (annotated or not)
        self.statearg = False  # @f receives the current state of each accelerator as an ARGUMENT (unknown contents); first setups link to it
        self.readcall = 0.0  # probability that a pure-arithmetic statement is instead a call returning a value (impure input of setups)
        self.nested = 0.0  # probability that a loop body is "setup/launch/await of one accelerator, then an inner loop of the same form"
        self._plan = []
        self.iv_stack = []  # induction variables (index typed) of the enclosing loops
        self.ii_stack = []  # their i32 casts at the head of the loop bodies
        self.ifinput = 0.0  # probability that one field of a setup is computed by an scf.if from a local and an outer computed value

    def loop_bounds(self):
        """(lb, ub, step) SSA names: function arguments (run-time trip counts) or index constants, including empty
        ranges (lb == ub, lb > ub) and steps > 1"""
        if self.r.random() < self.const_bounds:
            lb, ub = self.r.choice([(0, 0), (0, 1), (0, 2), (0, 3), (1, 4), (2, 2), (3, 1), (4, 4), (0, 4), (1, 1)])
            return f"%k{lb}", f"%k{ub}", self.r.choice(["%k1", "%k1", "%k2", "%k3"])
        b = self.r.randrange(NBOUNDS)
        return f"%lb{b}", f"%ub{b}", f"%st{b}"

    def fresh(self, p="v"):
        self.n += 1
        return f"%{p}{self.n}"

    def setup_launch(self, vals, ind, cur):
        acc = self.r.choice(self.scope_accs[-1])
        fields = FIELDS[acc]
        fs = fields if self.full else self.r.sample(fields, self.r.randint(1, len(fields)))
        s, t = self.fresh("s"), self.fresh("t")
        chosen = {f: self.r.choice(vals) for f in fs}
        if self.sticky:
            # redundancy-heavy programs: re-use an earlier configuration of this accelerator (values still in scope), change <= 1 field
            hist_c = self.cfg_hist.setdefault(acc, [])
            if hist_c and self.r.random() < self.sticky:
                old = self.r.choice(hist_c)
                keep = {f: (old[f] if f in old and old[f] in vals else chosen[f]) for f in fs}
                if self.r.random() < 0.5:
                    f = self.r.choice(fs)
                    keep[f] = chosen[f]
                chosen = keep
            hist_c.append(dict(chosen))
        pre_lines = []
        if self.ifinput and self.r.random() < self.ifinput:
            # the conditional is itself an input of the setup: its branch computes from a region-local value and from a value
            # computed just in front of it (either operand order), the other branch yields an existing value
            x, k, y, rr = self.fresh(), self.fresh(), self.fresh(), self.fresh("r")
            iv_inside = bool(self.iv_stack) and self.r.random() < 0.5
            xv = vals
            if iv_inside:
                # ... and nothing else the setup reads depends on that induction variable outside the region
                xv = [w for w in vals if w not in self.ii_stack] or vals
                chosen = {f: (v if v in xv else self.r.choice(xv)) for f, v in chosen.items()}
            pre_lines.append(f"{ind}{x} = arith.{self.r.choice(['muli', 'addi'])} {self.r.choice(xv)}, {self.r.choice(xv)} : i32")
            c = self.r.choice(["%c0", "%c1"])
            a, b = (k, x) if self.r.random() < 0.6 else (x, k)
            if iv_inside:
                # the ONLY read of an induction variable sits inside the region of the conditional
                first = f"{ind}  {k} = arith.index_cast {self.iv_stack[-1]} : index to i32"
            else:
                first = f"{ind}  {k} = arith.{self.r.choice(['addi', 'muli'])} {self.r.choice(vals)}, {self.r.choice(vals)} : i32"
            then = [first,
                    f"{ind}  {y} = arith.{self.r.choice(['addi', 'subi'])} {a}, {b} : i32", f"{ind}  scf.yield {y} : i32"]
            other = [f"{ind}  scf.yield {self.r.choice(vals)} : i32"]
            if self.r.random() < 0.5:
                then, other = other, then
            pre_lines += [f"{ind}{rr} = scf.if {c} -> (i32) {{"] + then + [f"{ind}}} else {{"] + other + [f"{ind}}}"]
            chosen[self.r.choice(fs)] = rr
        params = ", ".join(f'"{f}" = {chosen[f]} : i32' for f in fs)
        frm = ""
        hist = cur.setdefault("_hist_" + acc, [])
        if self.statearg and not hist and ind == "  " and self.r.random() < 0.8:
            frm = f" from %sa_{acc}"
        elif self.prethread and hist and self.r.random() < 0.6:
            # pre-existing threading: mostly the real predecessor, sometimes a STALE link to an older state of the accelerator
            # (the tracer has to re-link every setup to the setup that really precedes it)
            frm = f" from {self.r.choice(hist) if self.r.random() < 0.4 else hist[-1]}"
        out = pre_lines + [f'{ind}{s} = accfg.setup "{acc}"{frm} to ({params}) : {st_ty(acc)}']
        cur[acc] = s
        hist.append(s)
        cur.setdefault("_vis_" + acc, []).append(s)
        nl = 1 if self.r.random() < 0.8 else 2
        for _ in range(nl):
            if self.launch_vals:
                out.append(f'{ind}{t} = "accfg.launch"(%lv, {s}) <{{param_names = ["launch"], accelerator = "{acc}"}}> : (i5, {st_ty(acc)}) -> !accfg.token<"{acc}">')
            else:
                out.append(f'{ind}{t} = "accfg.launch"({s}) <{{param_names = [], accelerator = "{acc}"}}> : ({st_ty(acc)}) -> !accfg.token<"{acc}">')
            if self.r.random() < self.between:
                # computation placed between a launch and its await (inputs of later setups that are already "overlapped")
                for _ in range(self.r.randint(1, 2)):
                    v = self.fresh()
                    a, b = self.r.choice(vals), self.r.choice(vals)
                    out.append(f"{ind}{v} = arith.{self.r.choice(['addi', 'muli', 'subi'])} {a}, {b} : i32")
                    vals += [v, v, v]
            out.append(f'{ind}"accfg.await"({t}) : (!accfg.token<"{acc}">) -> ()')
            t = self.fresh("t")
        return out

    def block(self, vals, depth, ind, nst, cur):
        if self.force_scope is not None:
            self.scope_accs.append(self.force_scope)
            try:
                return self._block(vals, depth, ind, nst, cur)
            finally:
                self.scope_accs.pop()
        if self.focus and len(self.accs) > 1 and depth < self.depth and self.r.random() < 0.6:
            # this nested block drives a single accelerator only
            self.scope_accs.append([self.r.choice(self.accs)])
            try:
                return self._block(vals, depth, ind, nst, cur)
            finally:
                self.scope_accs.pop()
        return self._block(vals, depth, ind, nst, cur)

    def _branch_value(self, vals, ind):
        """the value a conditional yields: an existing value, or computed inside the branch from region-local and outer values
        (both operand orders), so that the conditional itself becomes an input of the setups that use its result"""
        if self.r.random() < 0.5:
            return [f"{ind}scf.yield {self.r.choice(vals)} : i32"]
        out = []
        k = self.fresh()
        out.append(f"{ind}{k} = arith.{self.r.choice(['addi', 'muli'])} {self.r.choice(vals)}, {self.r.choice(vals)} : i32")
        z = self.fresh()
        a, b = k, self.r.choice(vals[-3:] + vals)
        if self.r.random() < 0.5:
            a, b = b, a
        out.append(f"{ind}{z} = arith.{self.r.choice(['addi', 'subi', 'muli'])} {a}, {b} : i32")
        out.append(f"{ind}scf.yield {z} : i32")
        return out

    def _child(self, cur):
        """scope of a nested block: the states visible from the enclosing blocks stay visible"""
        return {k: list(v) for k, v in cur.items() if k.startswith("_vis_")}

    def bare_launch(self, ind, cur):
        """launch + await on a state that is visible here but not necessarily current (no setup in front): 're-run with whatever is
        configured now' -- after state tracing this is a launch on the current state of the block"""
        cands = [(a, cur["_vis_" + a]) for a in self.scope_accs[-1] if cur.get("_vis_" + a)]
        if not cands:
            return []
        acc, names = self.r.choice(cands)
        s, t = names[-1] if self.r.random() < 0.7 else self.r.choice(names), self.fresh("t")
        if self.launch_vals:
            la = f'{ind}{t} = "accfg.launch"(%lv, {s}) <{{param_names = ["launch"], accelerator = "{acc}"}}> : (i5, {st_ty(acc)}) -> !accfg.token<"{acc}">'
        else:
            la = f'{ind}{t} = "accfg.launch"({s}) <{{param_names = [], accelerator = "{acc}"}}> : ({st_ty(acc)}) -> !accfg.token<"{acc}">'
        return [la, f'{ind}"accfg.await"({t}) : (!accfg.token<"{acc}">) -> ()']

    def loop_body(self, vals, depth, ind, cur):
        if self.nested and self.r.random() < self.nested:
            # rotation candidates at several nesting levels whose setups read values of the enclosing loop bodies
            self._plan = [0.1] + ([0.9] if depth > 0 else []) + ([self.r.random()] if self.r.random() < 0.4 else [])
            return self.block(vals, depth, ind, len(self._plan), self._child(cur))
        return self.block(vals, depth, ind, self.r.randint(1, 4), self._child(cur))

    def _block(self, vals, depth, ind, nst, cur):
        out = []
        vals = list(vals)
        plan, self._plan = self._plan, []
        for _ in range(nst):
            k = plan.pop(0) if plan else self.r.random()
            if self.focus_acc is not None and depth == self.depth:
                self.force_scope = None
                # top level of a focused program: setup/launch pairs of the focus accelerator X separated by conditionals / loops
                # that drive only X or only the other accelerators
                u, x = self.r.random(), self.focus_acc
                others = [a for a in self.accs if a != x] or [x]
                if u < 0.45:
                    k, self.force_scope = 0.1, [x]
                elif u < 0.65:
                    k, self.force_scope = 0.7, [x]
                elif u < 0.85:
                    k, self.force_scope = 0.7, others
                elif u < 0.95:
                    k, self.force_scope = 0.9, self.r.choice([[x], others, self.accs])
                else:
                    k = 0.5
            if k < 0.42 and self.bare and self.r.random() < self.bare:
                out += self.bare_launch(ind, cur)
            elif k < 0.42:
                if self.force_scope is not None:
                    self.scope_accs.append(self.force_scope)
                    out += self.setup_launch(vals, ind, cur)
                    self.scope_accs.pop()
                else:
                    out += self.setup_launch(vals, ind, cur)
            elif k < 0.54:
                v = self.fresh()
                a, b = self.r.choice(vals), self.r.choice(vals)
                op = self.r.choice(["addi", "addi", "muli", "subi"])
                if self.readcall and self.r.random() < self.readcall:
                    out.append(f'{ind}{v} = func.call @r() {{"accfg.effects" = #accfg.effects<none>}} : () -> i32')
                    vals += [v, v]
                else:
                    out.append(f"{ind}{v} = arith.{op} {a}, {b} : i32")
                vals.append(v)
            elif k < 0.58 and self.nests:
                out += self.effect_nest(ind, self.r.randint(1, 3))
                for _k in [k for k in cur if not k.startswith('_')]:
                    del cur[_k]
            elif k < 0.61 and self.opaque and self.r.random() < self.opaque:
                # an operation that is not a call: it touches the registers iff it is annotated accfg.effects<full>
                ann = self.r.choice(['', ' {"accfg.effects" = #accfg.effects<full>}', ' {"accfg.effects" = #accfg.effects<full>}',
                                     ' {"accfg.effects" = #accfg.effects<none>}'])
                out.append(f'{ind}"test.op"(){ann} : () -> ()')
                if "full" in ann:
                    for _k in [k for k in cur if not k.startswith('_')]:
                        del cur[_k]
            elif k < 0.61:
                out.append(f"{ind}func.call @{'h' if self.callee and self.r.random() < 0.7 else 'g'}() : () -> ()")
                for _k in [k for k in cur if not k.startswith('_')]:
                    del cur[_k]
            elif k < 0.66:
                out.append(f'{ind}func.call @g() {{"accfg.effects" = #accfg.effects<none>}} : () -> ()')
            elif k < 0.82 and depth > 0:
                c = self.r.choice(["%c0", "%c1"])
                if self.r.random() < self.carried:
                    # the conditional yields a data value that later setups use
                    r = self.fresh("r")
                    out.append(f"{ind}{r} = scf.if {c} -> (i32) {{")
                    out += self.block(vals, depth - 1, ind + "  ", self.r.randint(0, 3), self._child(cur))
                    out += self._branch_value(vals, ind + "  ")
                    out.append(f"{ind}}} else {{")
                    out += self.block(vals, depth - 1, ind + "  ", self.r.randint(0, 2), self._child(cur))
                    out += self._branch_value(vals, ind + "  ")
                    out.append(f"{ind}}}")
                    vals += [r, r]
                else:
                    out.append(f"{ind}scf.if {c} {{")
                    out += self.block(vals, depth - 1, ind + "  ", self.r.randint(0, 3), self._child(cur))
                    out.append(f"{ind}}} else {{")
                    out += self.block(vals, depth - 1, ind + "  ", self.r.randint(0, 2), self._child(cur))
                    out.append(f"{ind}}}")
                for _k in [k for k in cur if not k.startswith('_')]:
                    del cur[_k]
            elif depth > 0:
                i, ii = self.fresh("i"), self.fresh()
                lbn, ubn, stn = self.loop_bounds()
                if self.r.random() < self.carried:
                    # loop-carried data values (running pointers) feeding the setups of the body and of the code after the loop
                    n = self.r.choice([1, 2, 2])
                    ps = [self.fresh("p") for _ in range(n)]
                    rs = [self.fresh("r") for _ in range(n)]
                    inits = [self.r.choice(vals) for _ in range(n)]
                    ia = ", ".join(f"{p} = {x}" for p, x in zip(ps, inits))
                    tys = ", ".join(["i32"] * n)
                    out.append(f"{ind}{', '.join(rs)} = scf.for {i} = {lbn} to {ubn} step {stn} iter_args({ia}) -> ({tys}) {{")
                    out.append(f"{ind}  {ii} = arith.index_cast {i} : index to i32")
                    inner = vals + [ii] + ps + ps
                    self.iv_stack.append(i); self.ii_stack.append(ii)
                    out += self.loop_body(inner, depth - 1, ind + "  ", cur)
                    self.iv_stack.pop(); self.ii_stack.pop()
                    nxt = []
                    for p in ps:
                        v = self.fresh()
                        out.append(f"{ind}  {v} = arith.addi {p}, {self.r.choice(vals + [ii])} : i32")
                        nxt.append(v)
                    out.append(f"{ind}  scf.yield {', '.join(nxt)} : {tys}")
                    out.append(f"{ind}}}")
                    vals += rs + rs
                else:
                    out.append(f"{ind}scf.for {i} = {lbn} to {ubn} step {stn} {{")
                    out.append(f"{ind}  {ii} = arith.index_cast {i} : index to i32")
                    self.iv_stack.append(i); self.ii_stack.append(ii)
                    out += self.loop_body(vals + [ii, ii], depth - 1, ind + "  ", cur)
                    self.iv_stack.pop(); self.ii_stack.pop()
                    out.append(f"{ind}}}")
                for _k in [k for k in cur if not k.startswith('_')]:
                    del cur[_k]
            if depth == self.depth:
                self.force_scope = None
        return out

    def effect_nest(self, ind, depth):
        """control flow WITHOUT setups that hides one unannotated call at a random leaf (then/else branch, loop body, any depth)"""
        if depth == 0:
            if self.opaque and self.r.random() < self.opaque:
                return [f'{ind}"test.op"() {{"accfg.effects" = #accfg.effects<full>}} : () -> ()']
            return [f"{ind}func.call @g() : () -> ()"]
        k = self.r.random()
        inner = self.effect_nest(ind + "  ", depth - 1)
        if k < 0.5:
            c = self.r.choice(["%c0", "%c1"])
            if self.r.random() < 0.5:
                return [f"{ind}scf.if {c} {{"] + inner + [f"{ind}}} else {{", f"{ind}}}"]
            return [f"{ind}scf.if {c} {{", f"{ind}}} else {{"] + inner + [f"{ind}}}"]
        lbn, ubn, stn = self.loop_bounds()
        i = self.fresh("i")
        return [f"{ind}scf.for {i} = {lbn} to {ubn} step {stn} {{"] + inner + [f"{ind}}}"]

    def program(self):
        args = [f"%x{i}" for i in range(NARGS)]
        if self.focus and len(self.accs) > 1:
            self.focus_acc = self.r.choice(self.accs)
        body = self.block(args, self.depth, "  ", self.r.randint(3, 8) if self.focus else self.r.randint(2, 5), {})
        sig = ", ".join([f"%x{i} : i32" for i in range(NARGS)] + ["%c0 : i1", "%c1 : i1"]
                        + [f"%{n}{b} : index" for b in range(NBOUNDS) for n in ("lb", "ub", "st")]
                        + ([f"%sa_{a} : {st_ty(a)}" for a in self.accs] if self.statearg else []))
        helper = ""
        if self.callee:
            # a helper that itself programs every accelerator (and calls nothing unmarked)
            hl = ["func.func @h() {", "  %hz = arith.constant 77 : i32"]
            for n, a in enumerate(self.accs):
                ps = ", ".join(f'"{f}" = %hz : i32' for f in FIELDS[a])
                hl.append(f'  %hs{n} = accfg.setup "{a}" to ({ps}) : {st_ty(a)}')
            helper = "\n".join(hl + ["  func.return", "}"]) + "\n"
        if self.before:
            g2 = type(self)(random.Random(self.r.getrandbits(32)), full=self.full, depth=min(self.depth, 2), accs=self.accs,
                            launch_vals=self.launch_vals, carried=0.0)
            g2.nested, g2.sticky = self.nested, self.sticky
            other = g2.program().split("\n", 1)[1].replace("func.func @f(", "func.func @e(", 1)
            helper += other
        if self.readcall:
            helper = "func.func private @r() -> i32\n" + helper
        return ("func.func private @g() -> ()\n" + helper +
                f"func.func @f({sig}) {{\n"
                + ("  %lv = arith.constant 1 : i5\n" if self.launch_vals else "")
                + "".join(f"  %k{k} = arith.constant {k} : index\n" for k in range(5))
                + "\n".join(body) + "\n  func.return\n}\n")


def hoist_chain_program(rng: random.Random):
    """Top-level chains around ONE accelerator X: a conditional that sets X up in one or both branches, then several
    setup/launch pairs of X that each differ from the previous configuration in a field or two, separated by conditionals / loops
    that do NOT touch X (they drive the other accelerator, call an annotated function, or are empty). The legality checks of
    hoisting a setup into a conditional and of merging setups have to look across those separators."""
    g = Gen(rng, full=True, depth=1, accs=ACCS)
    x, y = rng.sample(ACCS, 2)
    vals = [f"%x{i}" for i in range(NARGS)]
    ind, out = "  ", []
    g.sticky = 0.9

    def pair():
        g.scope_accs = [[x]]
        return g.setup_launch(list(vals), ind, {})

    def branch(acc, n):
        g.scope_accs = [[acc]]
        lines = []
        for _ in range(n):
            lines += g.setup_launch(list(vals), ind + "  ", {})
        return lines

    def sep_other():
        k = rng.random()
        c = rng.choice(["%c0", "%c1"])
        if k < 0.45:
            return [f"{ind}scf.if {c} {{"] + branch(y, rng.randint(0, 1)) + [f"{ind}}} else {{"] + branch(y, rng.randint(0, 1)) + [f"{ind}}}"]
        if k < 0.6:
            return [f"{ind}scf.if {c} {{", f'{ind}  func.call @g() {{"accfg.effects" = #accfg.effects<none>}} : () -> ()', f"{ind}}} else {{", f"{ind}}}"]
        if k < 0.8:
            lbn, ubn, stn = g.loop_bounds()
            i = g.fresh("i")
            return [f"{ind}scf.for {i} = {lbn} to {ubn} step {stn} {{"] + branch(y, 1) + [f"{ind}}}"]
        return []

    if rng.random() < 0.6:
        out += pair()
    for _ in range(rng.randint(1, 2)):
        c = rng.choice(["%c0", "%c1"])
        out += [f"{ind}scf.if {c} {{"] + branch(x, rng.randint(0, 1)) + [f"{ind}}} else {{"] + branch(x, rng.randint(0, 1)) + [f"{ind}}}"]
        for _ in range(rng.randint(1, 3)):
            out += pair()
            out += sep_other()
        out += pair()
    sig = ", ".join([f"%x{i} : i32" for i in range(NARGS)] + ["%c0 : i1", "%c1 : i1"]
                    + [f"%{n}{b} : index" for b in range(NBOUNDS) for n in ("lb", "ub", "st")])
    return ("func.func private @g() -> ()\n" f"func.func @f({sig}) {{\n" "  %lv = arith.constant 1 : i5\n"
            + "".join(f"  %k{k} = arith.constant {k} : index\n" for k in range(5)) + "\n".join(out) + "\n  func.return\n}\n")


def redundancy_program(rng: random.Random):
    """Small programs over ONE accelerator whose setups draw from three configurations that differ in one field each: a prefix,
    a loop whose body alternates / restores configurations (also inside conditionals and an inner loop), a suffix.  The space
    where the legality conditions of the dedup patterns (loop-invariance, redundancy with the loop-entry state, launches in
    between) decide the outcome."""
    g = Gen(rng, full=True, depth=2, accs=ACCS[:1])
    acc = ACCS[0]
    fields = FIELDS[acc]
    args = [f"%x{i}" for i in range(NARGS)]
    base = {f: args[i % len(args)] for i, f in enumerate(fields)}
    cfgs = [dict(base)]
    for _ in range(2):
        c = dict(base)
        c[rng.choice(fields)] = rng.choice(args)
        cfgs.append(c)

    def cfg():
        return cfgs[rng.choices([0, 1, 2], weights=[6, 3, 2])[0]]

    def sl(ind, c=None):
        c = c or cfg()
        s_, t = g.fresh("s"), g.fresh("t")
        params = ", ".join(f'"{f}" = {c[f]} : i32' for f in fields)
        return [f'{ind}{s_} = accfg.setup "{acc}" to ({params}) : {st_ty(acc)}',
                f'{ind}{t} = "accfg.launch"(%lv, {s_}) <{{param_names = ["launch"], accelerator = "{acc}"}}> : (i5, {st_ty(acc)}) -> !accfg.token<"{acc}">',
                f'{ind}"accfg.await"({t}) : (!accfg.token<"{acc}">) -> ()']

    def items(ind, n, depth):
        out = []
        for _ in range(n):
            u = rng.random()
            if u < 0.5 or depth == 0:
                out += sl(ind)
            elif u < 0.8:
                out += [f"{ind}scf.if {rng.choice(['%c0', '%c1'])} {{"] + sl(ind + "  ") + [f"{ind}}} else {{"] + sl(ind + "  ") + [f"{ind}}}"]
            elif u < 0.9:
                out += [f"{ind}scf.if {rng.choice(['%c0', '%c1'])} {{"] + sl(ind + "  ") + [f"{ind}}} else {{", f"{ind}}}"]
            else:
                lbn, ubn, stn = g.loop_bounds()
                out += [f"{ind}scf.for {g.fresh('i')} = {lbn} to {ubn} step {stn} {{"] + items(ind + "  ", rng.randint(1, 2), depth - 1) + [f"{ind}}}"]
        return out

    body = []
    for _ in range(rng.randint(1, 2)):
        body += sl("  ")
    lbn, ubn, stn = g.loop_bounds()
    body += [f"  scf.for {g.fresh('i')} = {lbn} to {ubn} step {stn} {{"] + items("    ", rng.choice([2, 3, 3, 3, 4]), 1) + ["  }"]
    for _ in range(rng.randint(0, 1)):
        body += sl("  ")
    sig = ", ".join([f"%x{i} : i32" for i in range(NARGS)] + ["%c0 : i1", "%c1 : i1"]
                    + [f"%{n}{b} : index" for b in range(NBOUNDS) for n in ("lb", "ub", "st")])
    return ("func.func private @g() -> ()\n" f"func.func @f({sig}) {{\n" "  %lv = arith.constant 1 : i5\n"
            + "".join(f"  %k{k} = arith.constant {k} : index\n" for k in range(5)) + "\n".join(body) + "\n  func.return\n}\n")


# ---------------------------------------------------------------------------------------------
# text-level mutations of generated programs (used by the failing-input search around a program on which model and code disagree)

_SETUP_RE = re.compile(r'^(\s*)(%s\d+) = accfg\.setup "(\w+)"( from %\w+)? to \((.*)\) : (.*)$')


def mutate_src(src: str, rng: random.Random):
    """one random small change that keeps the program in the generator's form (validity is checked by the caller with verify()):
    copy the configuration of another setup / change one value / change loop bounds / copy a setup+launch group.  (Mutations that
    produce a launch without its own setup in front are deliberately absent: such programs are outside the properties' quantifier.)"""
    lines = src.split("\n")
    f0 = next((i for i, l in enumerate(lines) if l.startswith("func.func @f(")), 0)
    end = next((i for i, l in enumerate(lines) if i > f0 and "func.return" in l), len(lines) - 1)
    setups = [(i, m) for i, l in enumerate(lines) if f0 < i < end and (m := _SETUP_RE.match(l))]
    if not setups:
        return None
    k = rng.random()
    i, m = rng.choice(setups)
    ind, name, acc, frm, params, ty = m.groups()
    if k < 0.12:
        loops = [j for j, l in enumerate(lines) if re.search(r"scf\.for %\w+ = %\w+ to %\w+ step %\w+", l)]
        if not loops:
            return None
        j = rng.choice(loops)
        b = rng.randrange(NBOUNDS)
        lines[j] = re.sub(r"= %\w+ to %\w+ step %\w+", f"= %lb{b} to %ub{b} step %st{b}", lines[j], count=1)
        return "\n".join(lines)
    if k < 0.24:
        # copy of a setup + launch + await (fresh names) at another position
        start = next(j for j, l in enumerate(lines) if l.startswith("func.func @f(")) + 1
        # only at group boundaries (never between a setup and its launches / a launch and its await)
        ok_pos = [j for j in range(start, end + 1)
                  if re.match(r"\s*(%s\d+ = accfg\.setup|scf\.for|scf\.if|%\w+(, %\w+)* = scf\.(for|if)|func\.return|\})", lines[j])]
        if not ok_pos:
            return None
        pos = rng.choice(ok_pos)
        u = rng.randrange(10 ** 6)
        ind2 = re.match(r"\s*", lines[pos]).group(0) if pos < len(lines) else "  "
        grp = [f'{ind2}%s{u} = accfg.setup "{acc}" to ({params}) : {ty}']
        if '"accfg.launch"(%lv' in src:
            grp.append(f'{ind2}%tm{u} = "accfg.launch"(%lv, %s{u}) <{{param_names = ["launch"], accelerator = "{acc}"}}> : (i5, {st_ty(acc)}) -> !accfg.token<"{acc}">')
        else:
            grp.append(f'{ind2}%tm{u} = "accfg.launch"(%s{u}) <{{param_names = [], accelerator = "{acc}"}}> : ({st_ty(acc)}) -> !accfg.token<"{acc}">')
        grp.append(f'{ind2}"accfg.await"(%tm{u}) : (!accfg.token<"{acc}">) -> ()')
        lines[pos:pos] = grp
        return "\n".join(lines)
    k = (k - 0.24) / 0.76
    if k < 0.6:
        same = [mm for j, mm in setups if mm.group(3) == acc and j != i]
        if not same:
            return None
        new = rng.choice(same).group(5).split(", ")
        old = params.split(", ")
        if len(new) == len(old) and rng.random() < 0.5:
            q = rng.randrange(len(new))
            new[q] = old[q]
        lines[i] = f'{ind}{name} = accfg.setup "{acc}"{frm or ""} to ({", ".join(new)}) : {ty}'
    elif k < 1.0:
        ps = params.split(", ")
        q = rng.randrange(len(ps))
        vals = sorted(set(re.findall(r"%(?:x|v|r|p)\d+", src)))
        mm = re.match(r'"(\w+)" = (%\w+) : i32', ps[q])
        if not mm or not vals:
            return None
        ps[q] = f'"{mm.group(1)}" = {rng.choice(vals)} : i32'
        lines[i] = f'{ind}{name} = accfg.setup "{acc}"{frm or ""} to ({", ".join(ps)}) : {ty}'
    else:
        return None
    return "\n".join(lines)


def _stmt_spans(lines, lo, hi):
    """top-level statements of lines[lo:hi] as (start, end) spans; a statement with regions runs to its closing brace"""
    spans, i = [], lo
    while i < hi:
        depth, j = 0, i
        while j < hi:
            l = lines[j].strip()
            opens, closes = l.endswith("{"), l.startswith("}")
            if closes:
                depth -= 1
            if opens:
                depth += 1
            j += 1
            if depth <= 0:
                break
        spans.append((i, j))
        i = j
    return spans


def shrink_src(src: str):
    """structural shrinking candidates, largest first: delete a whole statement (with its regions), replace a conditional by one of
    its branches, delete a setup together with the launches/awaits that follow it, delete a single line"""
    lines = src.split("\n")
    start = next((i for i, l in enumerate(lines) if l.startswith("func.func @f(")), 0) + 1
    end = next((i for i, l in enumerate(lines) if i >= start and "func.return" in l), len(lines))

    def rec(lo, hi):
        spans = _stmt_spans(lines, lo, hi)
        for (a, b) in sorted(spans, key=lambda ab: ab[0] - ab[1]):
            if "arith.constant" in lines[a] and "%k" in lines[a] or "%lv =" in lines[a] or "scf.yield" in lines[a]:
                continue
            yield lines[:a] + lines[b:]
        for (a, b) in spans:
            if b - a > 1:
                head = lines[a].strip()
                inner = [k for k in range(a + 1, b - 1)]
                els = next((k for k in inner if lines[k].strip() == "} else {" and _depth_at(lines, a, k) == 1), None)
                if head.startswith("scf.if") and els is not None:
                    yield lines[:a] + lines[a + 1:els] + lines[b:]
                    yield lines[:a] + lines[els + 1:b - 1] + lines[b:]
                    yield from rec(a + 1, els)
                    yield from rec(els + 1, b - 1)
                else:
                    yield from rec(a + 1, b - 1)
        for (a, b) in spans:
            if "accfg.setup" in lines[a]:
                k = a + 1
                while k < hi and ("accfg.launch" in lines[k] or "accfg.await" in lines[k] or "arith." in lines[k]):
                    k += 1
                    yield lines[:a] + lines[k:]

    seen = set()
    for cand in rec(start, end):
        t = "\n".join(cand)
        if t != src and t not in seen:
            seen.add(t)
            yield t


def _depth_at(lines, a, k):
    d = 0
    for j in range(a, k + 1):
        l = lines[j].strip()
        if l.startswith("}"):
            d -= 1
        if l.endswith("{"):
            d += 1
    return d


def mutants(case, rng: random.Random, n=10 ** 9):
    idle = 0
    for _ in range(n):
        src = case["src"]
        for _ in range(rng.choice([1, 1, 2, 3])):
            src = mutate_src(src, rng) or src
        if src != case["src"]:
            idle = 0
            yield dict(case, src=src)
        else:
            idle += 1
            if idle > 200:  # nothing to mutate (e.g. @f has no setup)
                return


# ---------------------------------------------------------------------------------------------
# abstract CSR machine on xDSL IR (accfg level)


class Machine:
    def __init__(self):
        self.regs = {}  # (acc, field) -> value
        self.trace = []
        self.ncalls = 0
        self.hook = None  # called as hook(op, env, machine) before each op
        self.calltag = None  # op -> static call number (then a clobber stores -(CLOB + tag) everywhere)
        self.universe = []  # (acc, field) keys that exist from the start


class Undefined(Exception):
    pass


def _val(env, v):
    if v not in env:
        raise Undefined(f"use of a value that is not (yet) defined: {v}")
    return env[v]


def run_block(block: Block, env: dict, m: Machine):
    for op in block.ops:
        r = run_op(op, env, m)
        if r is not None:
            return r
    return None


def _wrap32(x):
    return x


def run_op(op: Operation, env, m: Machine):
    from snaxc.dialects import accfg
    if m.hook is not None:
        m.hook(op, env, m)
    if isinstance(op, arith.ConstantOp):
        env[op.result] = op.value.value.data
    elif isinstance(op, arith.AddiOp):
        env[op.result] = _val(env, op.lhs) + _val(env, op.rhs)
    elif isinstance(op, arith.MuliOp):
        env[op.result] = _val(env, op.lhs) * _val(env, op.rhs)
    elif isinstance(op, arith.SubiOp):
        env[op.result] = _val(env, op.lhs) - _val(env, op.rhs)
    elif isinstance(op, arith.IndexCastOp):
        env[op.result] = _val(env, op.input)
    elif isinstance(op, accfg.SetupOp):
        acc = op.accelerator.data
        for name, v in op.iter_params():
            m.regs[(acc, name)] = _val(env, v)
        if op.in_state is not None:
            _val(env, op.in_state)
        env[op.out_state] = "state"
    elif isinstance(op, accfg.LaunchOp):
        acc = op.accelerator.data
        lv = tuple((n.data, _val(env, v)) for n, v in zip(op.param_names.data, op.values))
        _val(env, op.state)
        snap = tuple(sorted((f, v) for (a, f), v in m.regs.items() if a == acc))
        m.trace.append(("launch", acc, snap, lv))
        env[op.token] = "tok"
    elif isinstance(op, accfg.AwaitOp):
        _val(env, op.token)
        m.trace.append(("await", op.token.type.accelerator.data))
    elif isinstance(op, (func.CallOp,)) and op.results:
        # a call that returns a value (reads a sensor / a counter): no accfg effects when annotated so, but NOT pure — each
        # execution returns a fresh value and is an event of the trace (moving, duplicating or dropping it is observable)
        m.nreads = getattr(m, "nreads", 0) + 1
        v = -(7000 + 13 * m.nreads)
        m.trace.append(("read", m.nreads))
        eff = op.attributes.get("accfg.effects")
        if eff is None or eff.data != accfg.EffectsEnum.NONE:
            for k in set(m.regs) | set(m.universe):
                m.regs[k] = -(CLOB + 500 + m.nreads)
        for r in op.results:
            env[r] = v
    elif isinstance(op, (func.CallOp,)) or is_opaque(op):
        m.ncalls += 1
        tag = m.calltag[op] if m.calltag is not None else m.ncalls
        if call_has_effects(op):
            for k in set(m.regs) | set(m.universe):
                m.regs[k] = -(CLOB + tag)
        m.trace.append(("call", tag))
    elif isinstance(op, scf.YieldOp):
        return [_val(env, o) for o in op.operands]
    elif isinstance(op, scf.IfOp):
        c = _val(env, op.cond)
        reg = op.true_region if c else op.false_region
        res = run_block(reg.block, env, m) if reg.blocks else []
        for r, v in zip(op.results, res or []):
            env[r] = v
    elif isinstance(op, scf.ForOp):
        lb, ub, st = _val(env, op.lb), _val(env, op.ub), _val(env, op.step)
        carried = [_val(env, a) for a in op.iter_args]
        i = lb
        while st > 0 and i < ub:
            env[op.body.block.args[0]] = i
            for a, v in zip(op.body.block.args[1:], carried):
                env[a] = v
            carried = run_block(op.body.block, env, m) or []
            i += st
        for r, v in zip(op.results, carried):
            env[r] = v
    elif isinstance(op, func.ReturnOp):
        return "ret"
    else:
        raise NotImplementedError(op.name)
    return None


def well_formed_regions(module) -> bool:
    """every scf.if / scf.for with results ends each of its regions with a yield of as many values (the xDSL verifier is lenient
    about this; the generators never produce anything else, the shrinker and the mutator might)"""
    for op in module.walk():
        if isinstance(op, (scf.IfOp, scf.ForOp)) and op.results:
            for reg in op.regions:
                if not reg.blocks or reg.block.last_op is None or not isinstance(reg.block.last_op, scf.YieldOp):
                    return False
                if len(reg.block.last_op.operands) != len(op.results):
                    return False
    return True


def call_has_effects(op) -> bool:
    """The effect class of a call / an opaque operation as the property states it (computed from the IR alone, NOT with the
    repository's has_accfg_effects): an annotation accfg.effects<none|full> decides; without annotation a call clobbers every
    register — whatever the callee is — and any other operation does not."""
    from snaxc.dialects import accfg
    eff = op.attributes.get("accfg.effects")
    if isinstance(eff, accfg.EffectsAttr):
        return eff.data != accfg.EffectsEnum.NONE
    return isinstance(op, func.CallOp)


def is_opaque(op) -> bool:
    """an operation of an unregistered dialect without operands, results and regions (inline assembly, a runtime hook): an event
    of the trace like a call; whether it touches the accelerator registers is given by its accfg.effects annotation"""
    from xdsl.dialects.builtin import UnregisteredOp
    from xdsl.dialects.test import TestOp
    return isinstance(op, (UnregisteredOp, TestOp)) and not op.operands and not op.results and not op.regions


def find_func(module, name="f"):
    for op in module.walk():
        if isinstance(op, func.FuncOp) and op.sym_name.data == name:
            return op
    raise ValueError("no function")


CLOB = 10 ** 9
INIT = 777777


def run_func(f: func.FuncOp, args, hook=None, calltag=None, universe=()):
    m = Machine()
    m.hook = hook
    m.calltag = calltag
    m.universe = list(universe)
    for k in universe:
        m.regs[k] = INIT
    env = {a: v for a, v in zip(f.body.block.args, args)}
    for a in f.body.block.args[len(args):]:
        env[a] = "state"  # a state handed in by the caller: the registers hold unknown values
    run_block(f.body.block, env, m)
    return m.trace


def executions(rng: random.Random, n=10):
    """Argument vectors: data values, branch conditions, loop bounds (trip counts 0,1,2,3, step>1)."""
    bounds = [(0, 0, 1), (0, 1, 1), (0, 2, 1), (0, 3, 1), (1, 7, 3), (2, 3, 5), (5, 2, 1), (4, 9, 2)]
    out = []
    for k in range(n):
        xs = [rng.randrange(-50, 50) for _ in range(NARGS)]
        cs = [(k >> 0) & 1, (k >> 1) & 1] if k < 4 else [rng.randrange(2), rng.randrange(2)]
        bs = []
        for b in range(NBOUNDS):
            bs += list(bounds[(k + 3 * b) % len(bounds)] if k < 8 else rng.choice(bounds))
        out.append(xs + cs + bs)
    return out


# ---------------------------------------------------------------------------------------------
# conversion of the real IR to the model AST (state-typed SSA values are erased)


class Unsupported(Exception):
    pass


def _stmt_defs(s):
    """variables a model statement defines (recursively)"""
    if s[0] == "pure":
        return {s[1]}
    if s[0] == "if":
        return set().union(*[_stmt_defs(x) for x in s[2] + s[3]]) if s[2] + s[3] else set()
    if s[0] == "for":
        return {s[4]}.union(*[_stmt_defs(x) for x in s[5]])
    return set()


class Conv:
    """IR -> model AST. `carried=True` desugars loop-carried DATA values and conditional DATA results into identity casts of the
    (non-SSA) model environment, keeping every use in SSA order:
      %r = scf.for … iter_args(%p = %x) { body; yield %y }   ~>   q := x  (right after the definition of x in the block, or at the
      start of the block); for … { p := q; body; q := y }; r := q
      %r = scf.if c { …; yield %a } else { …; yield %b }      ~>   if c { …; r := a } else { …; r := b }
    `stmt_index[op]` is the index of an op's statement in its model block."""

    def __init__(self, f: func.FuncOp, carried=False):
        from snaxc.dialects import accfg
        self.accfg = accfg
        self.carried = carried
        self.has_carried = False
        self.stmt_index = {}
        self.span_end = {}
        self.vars = {}
        self.accs = []
        self.fields = []
        self.ncall = 0
        self.points = []  # (kind, op) for every setup / launch in pre-order
        self.calltag = {}
        # ids follow the sorted names (PullSetupOpsOutOfLoops orders hoisted fields by name)
        names = set()
        for op in f.walk():
            if isinstance(op, accfg.SetupOp):
                for n, _ in op.iter_params():
                    names.add((op.accelerator.data, n))
            if isinstance(op, (accfg.SetupOp, accfg.LaunchOp)):
                names.add((op.accelerator.data, None))
        self.accs = sorted({a for a, _ in names})
        self.fields = sorted((a, n) for a, n in names if n is not None)
        for a in f.body.block.args:
            self.var(a)
        self.body = self.block(f.body.block)

    def var(self, v: SSAValue):
        if v not in self.vars:
            self.vars[v] = len(self.vars)
        return self.vars[v]

    def use(self, v: SSAValue):
        if v not in self.vars:
            raise Unsupported("use before definition in walk order")
        return self.vars[v]

    def acc(self, name):
        if name not in self.accs:
            self.accs.append(name)
        return self.accs.index(name)

    def field(self, acc, name):
        key = (acc, name)
        if key not in self.fields:
            self.fields.append(key)
        return self.fields.index(key)

    def is_state(self, v):
        return isinstance(v.type, (self.accfg.StateType, self.accfg.TokenType))

    def block(self, block: Block, head=(), tail_of=None):
        items = [(s, None, 0) for s in head]  # (statement, real op, number of trailing desugaring statements)
        for op in block.ops:
            s = self.op(op)
            if s is None:
                continue
            if isinstance(s, tuple):  # loop with carried data values: (initialisations, loop statement, result casts)
                pre, st, post = s
                for (ps, xv) in pre:
                    pos = len(head)
                    for k in range(len(items) - 1, -1, -1):
                        if xv in _stmt_defs(items[k][0]):
                            pos = k + 1 + items[k][2]
                            break
                    else:
                        pos = 0  # defined outside this block (or a block argument): at the start of the block
                    items.insert(pos, (ps, None, 0))
                items.append((st, op, len(post)))
                items += [(x, None, 0) for x in post]
            else:
                items.append((s, op, 0))
        if tail_of is not None:
            items += [(x, None, 0) for x in tail_of()]
        for k, (_s, op, npost) in enumerate(items):
            if op is not None:
                self.stmt_index[op] = k
                self.span_end[op] = k + npost
        return [x[0] for x in items]

    def map_path(self, real_path, mod):
        """[(region, block, op index)…] from the module -> [i0, r1, i1, …] inside the function body (model statement indices)"""
        out = []
        op = mod
        for k, (r, b, i) in enumerate(real_path):
            if b != 0:
                raise Unsupported("multi-block region")
            child = list(op.regions[r].blocks[0].ops)[i]
            if k >= 1:
                if k > 1:
                    out.append(r)
                if child not in self.stmt_index:
                    raise Unsupported("position of an op without a model statement")
                out.append(self.stmt_index[child])
            op = child
        return out

    def block_at(self, real_path, mod):
        """the real block that contains the op at real_path"""
        op = mod
        for (r, b, i) in real_path[:-1]:
            op = list(op.regions[r].blocks[0].ops)[i]
        r, b, i = real_path[-1]
        return op.regions[r].blocks[0]

    def op(self, op: Operation):
        accfg = self.accfg
        if isinstance(op, accfg.SetupOp):
            a = op.accelerator.data
            self.points.append(("setup", op))
            return ["setup", self.acc(a), [[self.field(a, n), self.use(v)] for n, v in op.iter_params()]]
        if isinstance(op, accfg.LaunchOp):
            a = op.accelerator.data
            self.points.append(("launch", op))
            return ["launch", self.acc(a), [self.use(v) for v in op.values]]
        if isinstance(op, accfg.AwaitOp):
            return ["await", self.acc(op.token.type.accelerator.data)]
        if isinstance(op, arith.ConstantOp):
            return ["pure", self.var(op.result), ["const", op.value.value.data], []]
        if isinstance(op, (arith.AddiOp, arith.SubiOp, arith.MuliOp)):
            tag = {"arith.addi": "add", "arith.subi": "sub", "arith.muli": "mul"}[op.name]
            args = [self.use(op.lhs), self.use(op.rhs)]
            return ["pure", self.var(op.result), [tag], args]
        if isinstance(op, arith.IndexCastOp):
            a = [self.use(op.input)]
            return ["pure", self.var(op.result), ["cast"], a]
        if isinstance(op, func.CallOp) or is_opaque(op):
            self.ncall += 1
            self.calltag[op] = self.ncall
            if op.operands or op.results:
                raise Unsupported("call with operands")
            return ["call", self.ncall, call_has_effects(op)]
        if isinstance(op, scf.IfOp):
            data = [k for k, r in enumerate(op.results) if not self.is_state(r)]
            if data and not self.carried:
                raise Unsupported("scf.if with data results")
            c = self.use(op.cond)

            def branch(region):
                if not region.blocks:
                    return []
                blk = region.block
                y = blk.last_op

                def tail():
                    return [["pure", self.var(op.results[k]), ["cast"], [self.use(y.operands[k])]] for k in data]
                return self.block(blk, tail_of=tail if data else None)
            if data:
                self.has_carried = True
            t = branch(op.true_region)
            e = branch(op.false_region)
            return ["if", c, t, e]
        if isinstance(op, scf.ForOp):
            data = [k for k, r in enumerate(op.results) if not self.is_state(r)]
            if data and not self.carried:
                raise Unsupported("scf.for with data iter_args")
            lb, ub, st = self.use(op.lb), self.use(op.ub), self.use(op.step)
            iv = self.var(op.body.block.args[0])
            if not data:
                return ["for", lb, ub, st, iv, self.block(op.body.block)]
            self.has_carried = True
            qs = {k: self.var(("carried", op, k)) for k in data}
            pre = [(["pure", qs[k], ["cast"], [self.use(op.iter_args[k])]], self.use(op.iter_args[k])) for k in data]
            head = [["pure", self.var(op.body.block.args[1 + k]), ["cast"], [qs[k]]] for k in data]
            y = op.body.block.last_op

            def tail():
                return [["pure", qs[k], ["cast"], [self.use(y.operands[k])]] for k in data]
            body = self.block(op.body.block, head=head, tail_of=tail)
            post = [["pure", self.var(op.results[k]), ["cast"], [qs[k]]] for k in data]
            return (pre, ["for", lb, ub, st, iv, body], post)
        if isinstance(op, (scf.YieldOp, func.ReturnOp)):
            return None
        raise Unsupported(op.name)

    def effect_nest(self, ind, depth):
        """control flow WITHOUT setups that hides one unannotated call at a random leaf (then/else branch, loop body, any depth)"""
        if depth == 0:
            return [f"{ind}func.call @g() : () -> ()"]
        k = self.r.random()
        inner = self.effect_nest(ind + "  ", depth - 1)
        if k < 0.5:
            c = self.r.choice(["%c0", "%c1"])
            if self.r.random() < 0.5:
                return [f"{ind}scf.if {c} {{"] + inner + [f"{ind}}} else {{", f"{ind}}}"]
            return [f"{ind}scf.if {c} {{", f"{ind}}} else {{"] + inner + [f"{ind}}}"]
        lbn, ubn, stn = self.loop_bounds()
        i = self.fresh("i")
        return [f"{ind}scf.for {i} = {lbn} to {ubn} step {stn} {{"] + inner + [f"{ind}}}"]

    def program(self):
        nf = {}
        for (a, n) in self.fields:
            nf.setdefault(self.acc(a), []).append(self.fields.index((a, n)))
        return {"body": self.body, "nvars": len(self.vars), "naccs": len(self.accs),
                "fields": [[a, fs] for a, fs in sorted(nf.items())]}

    def trace_json(self, trace):
        """trace of the Python CSR machine in the model's vocabulary (acc / field ids, full snapshots)"""
        out = []
        for ev in trace:
            if ev[0] == "launch":
                a = self.acc(ev[1])
                snap = dict(ev[2])
                fs = sorted(i for i, (an, _) in enumerate(self.fields) if an == ev[1])
                out.append(["launch", a, [snap[self.fields[i][1]] for i in fs], [v for _, v in ev[3]]])
            elif ev[0] == "await":
                out.append(["await", self.acc(ev[1])])
            else:
                out.append(["call", ev[1]])
        return out

    def universe(self):
        return list(self.fields)

    def state_json(self, acc_name, state: dict):
        """{field name: SSAValue} of one accelerator -> sorted [[field id, var id]]"""
        return sorted([self.field(acc_name, n), self.vars.get(v, -1)] for n, v in state.items())


def real_inference_at_points(conv: Conv):
    """What the compiler assumes at every setup (its in-state) and launch (its state operand)."""
    from snaxc.inference.trace_acc_state import infer_state_of
    out = []
    for kind, op in conv.points:
        a = op.accelerator.data
        sv = op.in_state if kind == "setup" else op.state
        st = infer_state_of(sv) if sv is not None else {}
        out.append(conv.state_json(a, st))
    return out


def canon_ast(body):
    """Rename data variables by order of definition (function arguments keep their ids), so that two
    programs that differ only in SSA numbering compare equal."""
    ren = {}

    def d(v):
        if v not in ren:
            ren[v] = f"n{len(ren)}"
        return ren[v]

    def u(v):
        return ren.get(v, v)

    def blk(b):
        return [st(s) for s in b]

    def st(s):
        t = s[0]
        if t in ("setup", "ghost"):
            return [t, s[1], [[f, u(v)] for f, v in s[2]]]
        if t == "launch":
            return [t, s[1], [u(v) for v in s[2]]]
        if t == "pure":
            args = [u(v) for v in s[3]]
            return [t, d(s[1]), s[2], args]
        if t == "if":
            return [t, u(s[1]), blk(s[2]), blk(s[3])]
        if t == "for":
            lb, ub, stp = u(s[1]), u(s[2]), u(s[3])
            return [t, lb, ub, stp, d(s[4]), blk(s[5])]
        return s
    return blk(body)
