"""Environment shim, harness side only (nothing in /repo is changed).

* Under the installed xDSL 0.70 `snaxc.dialects.accfg` (and most transforms) fail to import
  because `irdl_options` is a list; the shim converts it to a tuple for every class in the MRO.
* `minimalloc` is absent: a stub module is installed whose `Problem.solve` is a first-fit placer
  that enforces the solver contract (non-overlap of simultaneously live buffers, capacity).
* `/repo` is put first on sys.path so that the working tree is what is imported.
"""
import os
import sys
import types
import warnings

REPO = os.environ.get("SNAX_REPO", "/repo")
if REPO not in sys.path:
    sys.path.insert(0, REPO)
os.environ.setdefault("SNAX_MLIR_VERIF", "1")
warnings.filterwarnings("ignore")

import xdsl.irdl.operations as _ops  # noqa: E402

if not getattr(_ops.OpDef.from_pyrdl, "_snax_verif_shim", False):
    _orig = _ops.OpDef.from_pyrdl

    def _from_pyrdl(pyrdl_def):
        for c in pyrdl_def.mro():
            v = vars(c).get("irdl_options")
            if isinstance(v, list):
                setattr(c, "irdl_options", tuple(v))
        return _orig(pyrdl_def)

    _from_pyrdl._snax_verif_shim = True
    _ops.OpDef.from_pyrdl = staticmethod(_from_pyrdl)


if "minimalloc" not in sys.modules:
    try:
        import minimalloc  # noqa: F401
    except Exception:
        m = types.ModuleType("minimalloc")

        class Buffer:
            # signature used by snaxc/transforms/snax_allocate.py: Buffer(id, start, end, size, alignment),
            # attribute `end_time` is assigned afterwards; lifespan is the half-open [start_time, end_time)
            def __init__(self, id="", start_time=0, end_time=0, size=0, alignment=1, **kw):
                self.id = id
                self.start_time = start_time
                self.end_time = end_time
                self.size = size
                self.alignment = alignment
                self.offset = None

            @property
            def lifespan(self):
                return (self.start_time, self.end_time)

        class Problem:
            LOG = []  # every problem handed to the solver (harness reads this)

            def __init__(self, buffers=(), capacity=0, **kw):
                self.buffers = list(buffers)
                self.capacity = capacity

            def solve(self):
                """First fit in the given order; returns the list of offsets (what snax_allocate zips with
                the buffers). Guarantees exactly the contract assumed of the absent solver: buffers whose
                half-open lifespans intersect get disjoint ranges, offsets are multiples of the alignment,
                offset + size <= capacity (else RuntimeError)."""
                placed = []
                for b in self.buffers:
                    off = 0
                    a = max(1, int(getattr(b, "alignment", 1) or 1))
                    while True:
                        off = (off + a - 1) // a * a
                        clash = None
                        for p in placed:
                            live = p.lifespan[0] < b.lifespan[1] and b.lifespan[0] < p.lifespan[1]
                            if live and p.offset < off + b.size and off < p.offset + p.size:
                                clash = p
                                break
                        if clash is None:
                            break
                        off = clash.offset + clash.size
                    if off + b.size > self.capacity:
                        raise RuntimeError("minimalloc stub: capacity exceeded")
                    b.offset = off
                    placed.append(b)
                Problem.LOG.append(self)
                return [b.offset for b in self.buffers]

        m.Buffer = Buffer
        m.Problem = Problem
        sys.modules["minimalloc"] = m
