#!/bin/bash
# eval_seed_dir.sh <seed root, e.g. /tmp/seed2/c10> <PROP> <suffix, e.g. r2>   -> seeded/<PROP>-<suffix>m1, m2
root=$1; P=$2; suf=$3
for m in m1 m2; do
  [ -f $root/out/$m/patch.diff ] || continue
  /venv/bin/python harness/verify_seed.py $root/out/$m $P-$suf$m $P > /tmp/vs.out 2>&1
  python3 - <<PY
import json
m=json.load(open('/verif/seeded/$P-$suf$m/meta.json'))
c=m.get('checks',{}).get('$P',{})
kind = "missed" if c.get("exit") == 0 else ("impl-violation" if c.get("violation_lines") and "no-failing-input-found" not in c["violation_lines"][0] else "no-failing-input-found")
print('$P-$suf$m', 'confirmed=',m.get('confirmed'), 'exit=',c.get('exit'), kind, '|', (c.get('what') or '')[:140], c.get('seconds'))
PY
done
