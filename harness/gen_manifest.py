"""Regenerates MANIFEST.json from the table below (run from /verif)."""
import json, os, sys
VERIF = os.path.dirname(os.path.dirname(os.path.abspath(__file__)))
ALL = [f"C{i:02d}" for i in range(1, 21)]
CLAIMED = {}
_cd = os.path.join(VERIF, "harness", "claims")
for _f in sorted(os.listdir(_cd)):
    if _f.endswith(".json"):
        CLAIMED[_f[:-5]] = json.load(open(os.path.join(_cd, _f)))
checks = []
for pid, c in sorted(CLAIMED.items()):
    checks.append({
        "property_id": pid,
        "quick_cmd": f"/venv/bin/python harness/check.py {pid} --tier quick",
        "thorough_cmd": f"/venv/bin/python harness/check.py {pid} --tier thorough",
        "evidence_file": f"evidence/{pid}.json",
        "replay_cmd_template": f"/venv/bin/python harness/check.py {pid} --replay {{path}}",
        "engine": "lean4-model+correspondence",
        "level_claimed": {"category": "proof", "text": c["text"], "design_ref": c.get("design_ref", f"DESIGN.md §3 {pid}")},
        "level_note": c["note"],
        "technique": c.get("technique", "Lean 4 theorems about a hand-written model + differential correspondence check against the real code"),
    })
na = [{"property_id": p, "reason": "no check registered yet in this round (model under construction); nothing is claimed"}
      for p in ALL if p not in CLAIMED]
m = {
    "version": 1,
    "setup_cmd": "/venv/bin/python harness/setup.py",
    "hooks": {
        "guard": "SNAX_MLIR_VERIF",
        "enable": "not needed: all instrumentation is applied from the harness process (harness/compat.py monkeypatches xDSL); nothing in /repo is guarded",
        "baseline_off_cmd": "cd /repo && /venv/bin/python -m pytest -ra -q -p no:cacheprovider --timeout=900 --continue-on-collection-errors",
        "source_commits": [],
        "add_only": True,
    },
    "engines": [{"name": "lean4-model+correspondence", "path": "lean/ + harness/", "serves_properties": sorted(CLAIMED),
                 "kind_free_text": "Lean 4 library of models and theorems (lake), JSON-lines model driver (lean_exe), Python correspondence harness running the real snaxc code in-process"}],
    "checks": checks,
    "notes": "fix: commits in /repo are listed in known_findings.json (status fixed). See DESIGN.md.",
    "not_applicable": na,
}
json.dump(m, open(os.path.join(VERIF, "MANIFEST.json"), "w"), indent=1)
print("claimed", sorted(CLAIMED), "unclaimed", [x["property_id"] for x in na])
