"""Linked accfg IR (C07, Model/AccfgLinks.lean): conversion of the REAL IR to the model's AST *with* the state-typed
SSA values: the untraced input (`ConvP` -> PBlock: setups with result / stale input state, launches naming their state)
and the IR after `accfg-trace-states` (`ConvL` -> LBlock: linked setups, scf.for carrying per accelerator (block argument,
init, yielded, result), scf.if yielding per accelerator (result, then, else)).

State values of the traced IR are numbered canonically in the order in which the model's `weave` allocates them:
block order; a setup numbers its result; scf.for numbers its state block arguments, then its body, then its state
results; scf.if numbers the then-branch, the else-branch, then its state results.  Data values are numbered exactly as
`accfg_common.Conv` does (function arguments, then definitions in walk order), so both programs use the same ids.
"""
import compat  # noqa: F401
import accfg_common as ac
from xdsl.dialects import arith, func, scf

Unsupported = ac.Unsupported
FIXED = True  # set by props/c07.py: the pass with fixes/FC07a (then a loop may carry the state of an accelerator it does not set up)


class _Base(ac.Conv):
    """shares variable / accelerator / field numbering with accfg_common.Conv (ids follow sorted names)"""

    def is_statev(self, v):
        return isinstance(v.type, self.accfg.StateType)

    def common(self, op):
        """statements that carry no state value; returns None if `op` is not one of them"""
        accfg = self.accfg
        if isinstance(op, accfg.AwaitOp):
            return ["await", self.acc(op.token.type.accelerator.data)]
        if isinstance(op, arith.ConstantOp):
            return ["pure", self.var(op.result), ["const", op.value.value.data], []]
        if isinstance(op, (arith.AddiOp, arith.SubiOp, arith.MuliOp)):
            tag = {"arith.addi": "add", "arith.subi": "sub", "arith.muli": "mul"}[op.name]
            return ["pure", self.var(op.result), [tag], [self.use(op.lhs), self.use(op.rhs)]]
        if isinstance(op, arith.IndexCastOp):
            return ["pure", self.var(op.result), ["cast"], [self.use(op.input)]]
        if isinstance(op, func.CallOp) or ac.is_opaque(op):
            from accfg_common import call_has_effects
            self.ncall += 1
            self.calltag[op] = self.ncall
            if op.operands or op.results:
                raise Unsupported("call with operands")
            return ["call", self.ncall, call_has_effects(op)]
        return None


class ConvP(_Base):
    """the program BEFORE state tracing"""

    def __init__(self, f):
        self.sid = {}
        super().__init__(f)

    def op(self, op):
        accfg = self.accfg
        if isinstance(op, accfg.SetupOp):
            a = op.accelerator.data
            inp = None
            if op.in_state is not None:
                if op.in_state not in self.sid:
                    raise Unsupported("setup linked to a state that is not a setup result")
                inp = self.sid[op.in_state]
            fs = [[self.field(a, n), self.use(v)] for n, v in op.iter_params()]
            self.sid[op.out_state] = len(self.sid)
            return ["setup", self.acc(a), fs, self.sid[op.out_state], inp]
        if isinstance(op, accfg.LaunchOp):
            if op.state not in self.sid:
                raise Unsupported("launch on a state that is not a setup result")
            return ["launch", self.acc(op.accelerator.data), [self.use(v) for v in op.values], self.sid[op.state]]
        r = self.common(op)
        if r is not None:
            return r
        if isinstance(op, scf.IfOp):
            if op.results:
                raise Unsupported("scf.if with results before tracing")
            c = self.use(op.cond)
            t = self.block(op.true_region.block) if op.true_region.blocks else []
            e = self.block(op.false_region.block) if op.false_region.blocks else []
            return ["if", c, t, e]
        if isinstance(op, scf.ForOp):
            if any(not self.is_statev(r) for r in op.results):
                raise Unsupported("scf.for with data iter_args")
            lb, ub, st = self.use(op.lb), self.use(op.ub), self.use(op.step)
            iv = self.var(op.body.block.args[0])
            if not op.results:
                return ["for", lb, ub, st, iv, self.block(op.body.block)]
            # a loop that ALREADY carries state values (pre-existing threading)
            inside = {o.accelerator.data for o in op.body.walk() if isinstance(o, self.accfg.SetupOp)}
            accs = [r.type.accelerator.data for r in op.results]
            if len(set(accs)) != len(accs):
                raise Unsupported("pre-threaded scf.for carrying two states of one accelerator")
            if not FIXED and any(a not in inside for a in accs):
                raise Unsupported("pre-threaded scf.for carrying the state of an accelerator it does not set up")
            inits = []
            for v in op.iter_args:
                if v not in self.sid:
                    raise Unsupported("pre-threaded scf.for: init state is not a known state value")
                inits.append(self.sid[v])
            args = []
            for a in op.body.block.args[1:]:
                self.sid[a] = len(self.sid)
                args.append(self.sid[a])
            body = self.block(op.body.block)
            ylds = []
            for v in op.body.block.last_op.operands:
                if v not in self.sid:
                    raise Unsupported("pre-threaded scf.for: yielded state is not a known state value")
                ylds.append(self.sid[v])
            car = []
            for i, r in enumerate(op.results):
                self.sid[r] = len(self.sid)
                car.append([self.acc(accs[i]), args[i], inits[i], ylds[i], self.sid[r]])
            return ["for", lb, ub, st, iv, body, car]
        if isinstance(op, (scf.YieldOp, func.ReturnOp)):
            return None
        raise Unsupported(op.name)


class ConvL(_Base):
    """the program AFTER state tracing, with canonical state ids; `self.states` = the state SSA values in id order"""

    def __init__(self, f):
        self.sid = {}
        self.states = []
        super().__init__(f)

    def new(self, v):
        self.sid[v] = len(self.states)
        self.states.append(v)
        return self.sid[v]

    def ref(self, v):
        if v not in self.sid:
            raise Unsupported("state used before its definition in walk order")
        return self.sid[v]

    def _straight_cur(self, op):
        """the launch's state is the result of a setup of its accelerator that precedes it in the same block with only
        awaits / launches / pure ops / annotated calls / setups of OTHER accelerators in between (computed on the real IR,
        independently of the model's bookkeeping)"""
        accfg = self.accfg
        def effects(o):  # from the IR alone: an unannotated call anywhere inside
            return any(ac.call_has_effects(x) for x in o.walk())
        sv = op.state
        o = op.prev_op
        while o is not None:
            if isinstance(o, accfg.SetupOp):
                if o.out_state is sv:
                    return True
                if o.accelerator.data == op.accelerator.data:
                    return False
            elif isinstance(o, (scf.IfOp, scf.ForOp)) or effects(o):
                return False
            o = o.prev_op
        return False

    def op(self, op):
        accfg = self.accfg
        if isinstance(op, accfg.SetupOp):
            a = op.accelerator.data
            inp = self.ref(op.in_state) if op.in_state is not None else None
            fs = [[self.field(a, n), self.use(v)] for n, v in op.iter_params()]
            self.points.append(("setup", op))
            return ["setup", self.acc(a), fs, self.new(op.out_state), inp]
        if isinstance(op, accfg.LaunchOp):
            self.points.append(("launch", op))
            st = self.sid.get(op.state)
            return ["launch", self.acc(op.accelerator.data), [self.use(v) for v in op.values], st,
                    st is not None and self._straight_cur(op)]
        r = self.common(op)
        if r is not None:
            return r
        if isinstance(op, scf.IfOp):
            if any(not self.is_statev(r) for r in op.results):
                raise Unsupported("scf.if with data results")
            c = self.use(op.cond)
            t = self.block(op.true_region.block) if op.true_region.blocks else []
            e = self.block(op.false_region.block) if op.false_region.blocks else []
            res = []
            # the order of the scf.if results follows Python dict order in the real pass; it carries no meaning: the
            # canonical form lists (and numbers) them by accelerator
            for i, r in sorted(enumerate(op.results), key=lambda ir: (self.acc(ir[1].type.accelerator.data), ir[0])):
                ty = op.true_region.block.last_op.operands[i]
                ey = op.false_region.block.last_op.operands[i]
                res.append([self.acc(r.type.accelerator.data), self.new(r), self.ref(ty), self.ref(ey)])
            return ["if", c, t, e, res]
        if isinstance(op, scf.ForOp):
            if any(not self.is_statev(r) for r in op.results):
                raise Unsupported("scf.for with data iter_args")
            lb, ub, st = self.use(op.lb), self.use(op.ub), self.use(op.step)
            iv = self.var(op.body.block.args[0])
            inits = [self.ref(v) for v in op.iter_args]
            bargs = list(op.body.block.args[1:])
            if len(bargs) != len(inits) or len(bargs) != len(op.results):
                raise Unsupported("scf.for with inconsistent iter_args / block arguments / results")
            # canonical order = by accelerator (the real pass: existing block arguments first, then created ones by name)
            order = sorted(range(len(bargs)), key=lambda i: (self.acc(bargs[i].type.accelerator.data), i))
            args = {i: self.new(bargs[i]) for i in order}
            body = self.block(op.body.block)
            ylds = [self.ref(v) for v in op.body.block.last_op.operands]
            car = []
            for i in order:
                r = op.results[i]
                car.append([self.acc(r.type.accelerator.data), args[i], inits[i], ylds[i], self.new(r)])
            return ["for", lb, ub, st, iv, body, car]
        if isinstance(op, (scf.YieldOp, func.ReturnOp)):
            return None
        raise Unsupported(op.name)

    def real_inference(self):
        """real `infer_state_of` of EVERY state value of the traced program, in canonical id order"""
        from snaxc.inference.trace_acc_state import infer_state_of
        out = []
        for i, v in enumerate(self.states):
            out.append([i, self.state_json(v.type.accelerator.data, infer_state_of(v))])
        return out


import random
import re

_FOR_RE = re.compile(r'^(\s*)scf\.for (%\w+) = (%\w+) to (%\w+) step (%\w+) \{$')
_PRE_FOR_RE = re.compile(r'scf\.for .*iter_args\(.*\) -> \(.*!accfg\.state')


def has_prethreaded_loop(src: str) -> bool:
    """the named clause NoPreThreadedLoops on the INPUT: some scf.for already carries a state value"""
    lines = src.split("\n")
    lo, hi = _f_span(lines)
    return any(_PRE_FOR_RE.search(l) for l in lines[lo:hi])


def _f_span(lines):
    """line range of the body of @f (a module may hold other functions, which are not the program under test)"""
    lo = next((i for i, l in enumerate(lines) if l.startswith("func.func @f(")), 0)
    hi = next((i for i, l in enumerate(lines) if i > lo and "func.return" in l), len(lines))
    return lo, hi


def prethread_loops(src: str, rng: random.Random, nloops=2):
    """Text transformation of a generated (untraced) program: up to `nloops` loops get a PRE-EXISTING loop-carried state of one
    accelerator X they set up at the top level of their body: iter_args(arg = <a setup of X in front of the loop, mostly the
    latest>), the first top-level setup of X in the body linked `from arg`, `scf.yield <a top-level setup of X of the body, mostly
    the last>`. Calls / control flow in between make these links stale -- the tracer has to cope (C07: pre-existing partially
    threaded state)."""
    lines = src.split("\n")
    done = 0
    for _ in range(6):
        if done >= nloops:
            break
        lo_f, hi_f = _f_span(lines)
        loops = [i for i, l in enumerate(lines) if lo_f < i < hi_f and _FOR_RE.match(l)]
        rng.shuffle(loops)
        for i in loops:
            ind, iv, lb, ub, st = _FOR_RE.match(lines[i]).groups()
            j = next((k for k in range(i + 1, len(lines)) if lines[k] == ind + "}"), None)
            if j is None:
                continue
            inner = ind + "  "
            body_setups = [(k, m) for k in range(i + 1, j) if (m := ac._SETUP_RE.match(lines[k])) and m.group(1) == inner]
            cands = sorted({m.group(3) for _, m in body_setups})
            u0 = rng.random()
            if u0 < 0.45:
                # also an accelerator the body does not set up at its top level (the loop then just passes its state through) ...
                outer = {m.group(3) for l in lines[:i] if (m := ac._SETUP_RE.match(l)) and m.group(1) == ind}
                if u0 < 0.25 and outer - set(cands):
                    cands = sorted(outer - set(cands))  # ... and only such accelerators
                else:
                    cands = sorted(set(cands) | outer)
            if not cands:
                continue
            acc = rng.choice(cands)
            mine = [(k, m) for k, m in body_setups if m.group(3) == acc]
            before = []
            k = i - 1
            while k > lo_f and (lines[k].startswith(ind) or not lines[k].strip()):
                m = ac._SETUP_RE.match(lines[k])
                if m and m.group(1) == ind and m.group(3) == acc:
                    before.append(m.group(2))
                k -= 1
            if not before:
                continue
            init = before[0] if rng.random() < 0.8 else rng.choice(before)
            u = rng.randrange(10 ** 6)
            arg, res = f"%pa{u}", f"%pr{u}"
            ty = ac.st_ty(acc)
            if mine:
                yk, ym = mine[-1] if rng.random() < 0.8 else rng.choice(mine)
                yname = ym.group(2)
                fk, fm = mine[0]
                if rng.random() < 0.85:
                    ind_, name, acc_, frm, params, ty_ = fm.groups()
                    lines[fk] = f'{ind_}{name} = accfg.setup "{acc}" from {arg} to ({params}) : {ty_}'
            else:
                yname = arg
            lines[i] = f"{ind}{res} = scf.for {iv} = {lb} to {ub} step {st} iter_args({arg} = {init}) -> ({ty}) {{"
            lines.insert(j, f"{inner}scf.yield {yname} : {ty}")
            if rng.random() < 0.25:
                # an unannotated call behind the yielded setup: the (pre-existing) yield is stale
                lines.insert(j, f"{inner}func.call @g() : () -> ()")
                j += 1
            # the next setup of X behind the loop may already be linked to the loop result
            for k in range(j + 2, len(lines)):
                if not lines[k].startswith(ind) or lines[k] == ind[:-2] + "}":
                    break
                m = ac._SETUP_RE.match(lines[k])
                if m and m.group(1) == ind and m.group(3) == acc:
                    if not m.group(4) and rng.random() < 0.5:
                        lines[k] = f'{ind}{m.group(2)} = accfg.setup "{acc}" from {res} to ({m.group(5)}) : {m.group(6)}'
                    break
            done += 1
            break
        else:
            break
    return "\n".join(lines)


def passthrough_program(rng: random.Random, full=None):
    """A loop that ALREADY carries the state of accelerator X (left over from an earlier trace + dedup run) but no longer sets X up
    in its body: it passes the state through, while the body sets up the other accelerator and (mostly) reaches an unannotated
    call; X is set up again (a few fields) and launched behind the loop."""
    g = ac.Gen(rng, full=False, depth=2, accs=ac.ACCS)
    x, y = rng.sample(ac.ACCS, 2)
    vals = [f"%x{i}" for i in range(ac.NARGS)]
    ind = "  "
    out = []
    g.scope_accs = [[x]]
    g.full = rng.random() < 0.6 if full is None else full
    pre = g.setup_launch(list(vals), ind, {})
    sx = next(m.group(2) for l in pre if (m := ac._SETUP_RE.match(l)))
    out += pre
    if rng.random() < 0.4:
        g.scope_accs = [[y]]
        out += g.setup_launch(list(vals), ind, {})
    lbn, ubn, stn = g.loop_bounds()
    i, ii, arg, res = g.fresh("i"), g.fresh(), g.fresh("pa"), g.fresh("pr")
    ty = ac.st_ty(x)
    out.append(f"{ind}{res} = scf.for {i} = {lbn} to {ubn} step {stn} iter_args({arg} = {sx}) -> ({ty}) {{")
    out.append(f"{ind}  {ii} = arith.index_cast {i} : index to i32")
    body = []
    g.scope_accs = [[y]]
    g.full = rng.random() < 0.5 if full is None else full
    for _ in range(rng.randint(1, 3)):
        k = rng.random()
        if k < 0.45:
            body += g.setup_launch(vals + [ii], ind + "  ", {})
        elif k < 0.8:
            body += g.effect_nest(ind + "  ", rng.randint(0, 2))
        else:
            body.append(f'{ind}  func.call @g() {{"accfg.effects" = #accfg.effects<none>}} : () -> ()')
    if not any("accfg.setup" in l for l in body):
        body += g.setup_launch(vals + [ii], ind + "  ", {})
    out += body
    out.append(f"{ind}  scf.yield {arg} : {ty}")
    out.append(f"{ind}}}")
    g.scope_accs = [[x]]
    g.full = False if full is None else full
    post = g.setup_launch(list(vals), ind, {})
    if rng.random() < 0.5:
        post = [re.sub(r'accfg\.setup "(\w+)" to', lambda m: f'accfg.setup "{m.group(1)}" from {res} to', l, count=1) if ac._SETUP_RE.match(l) else l
                for l in post]
    out += post
    sig = ", ".join([f"%x{i} : i32" for i in range(ac.NARGS)] + ["%c0 : i1", "%c1 : i1"]
                    + [f"%{n}{b} : index" for b in range(ac.NBOUNDS) for n in ("lb", "ub", "st")])
    return ("func.func private @g() -> ()\n" f"func.func @f({sig}) {{\n" "  %lv = arith.constant 1 : i5\n"
            + "".join(f"  %k{k} = arith.constant {k} : index\n" for k in range(5)) + "\n".join(out) + "\n  func.return\n}\n")


def canon_states(lst):
    """model side: [[id, [[f, x]…] | "no-state"]…] with the dictionaries sorted like Conv.state_json"""
    return [[i, sorted(s) if isinstance(s, list) else s] for i, s in lst]


def strip_cur(body):
    """the traced program without the derived `cur` flag of launches (for messages)"""
    out = []
    for s in body:
        if s[0] == "launch":
            out.append(s[:4])
        elif s[0] == "if":
            out.append([s[0], s[1], strip_cur(s[2]), strip_cur(s[3]), s[4]])
        elif s[0] == "for":
            out.append(s[:5] + [strip_cur(s[5]), s[6]])
        else:
            out.append(s)
    return out
