"""Linked accfg IR (C07, Model/AccfgLinks.lean): conversion of the REAL IR to the model's AST *with* the state-typed
SSA values: the untraced input (`ConvP` -> PBlock: setups with result / stale input state, launches naming their state)
and the IR after `accfg-trace-states` (`ConvL` -> LBlock: linked setups, scf.for carrying per accelerator (block argument,
init, yielded, result), scf.if yielding per accelerator (result, then, else)).

State values of the traced IR are numbered canonically in the order in which the model's `weave` allocates them:
block order; a setup numbers its result; scf.for numbers its state block arguments, then its body, then its state
results; scf.if numbers the then-branch, the else-branch, then its state results.  Data values are numbered exactly as
`accfg_common.Conv` does (function arguments, then definitions in walk order), so both programs use the same ids.
"""
import compat  # noqa: F401
import accfg_common as ac
from xdsl.dialects import arith, func, scf

Unsupported = ac.Unsupported


class _Base(ac.Conv):
    """shares variable / accelerator / field numbering with accfg_common.Conv (ids follow sorted names)"""

    def is_statev(self, v):
        return isinstance(v.type, self.accfg.StateType)

    def common(self, op):
        """statements that carry no state value; returns None if `op` is not one of them"""
        accfg = self.accfg
        if isinstance(op, accfg.AwaitOp):
            return ["await", self.acc(op.token.type.accelerator.data)]
        if isinstance(op, arith.ConstantOp):
            return ["pure", self.var(op.result), ["const", op.value.value.data], []]
        if isinstance(op, (arith.AddiOp, arith.SubiOp, arith.MuliOp)):
            tag = {"arith.addi": "add", "arith.subi": "sub", "arith.muli": "mul"}[op.name]
            return ["pure", self.var(op.result), [tag], [self.use(op.lhs), self.use(op.rhs)]]
        if isinstance(op, arith.IndexCastOp):
            return ["pure", self.var(op.result), ["cast"], [self.use(op.input)]]
        if isinstance(op, func.CallOp):
            from snaxc.inference.helpers import has_accfg_effects
            self.ncall += 1
            self.calltag[op] = self.ncall
            if op.operands or op.results:
                raise Unsupported("call with operands")
            return ["call", self.ncall, bool(has_accfg_effects(op))]
        return None


class ConvP(_Base):
    """the program BEFORE state tracing"""

    def __init__(self, f):
        self.sid = {}
        super().__init__(f)

    def op(self, op):
        accfg = self.accfg
        if isinstance(op, accfg.SetupOp):
            a = op.accelerator.data
            inp = None
            if op.in_state is not None:
                if op.in_state not in self.sid:
                    raise Unsupported("setup linked to a state that is not a setup result")
                inp = self.sid[op.in_state]
            fs = [[self.field(a, n), self.use(v)] for n, v in op.iter_params()]
            self.sid[op.out_state] = len(self.sid)
            return ["setup", self.acc(a), fs, self.sid[op.out_state], inp]
        if isinstance(op, accfg.LaunchOp):
            if op.state not in self.sid:
                raise Unsupported("launch on a state that is not a setup result")
            return ["launch", self.acc(op.accelerator.data), [self.use(v) for v in op.values], self.sid[op.state]]
        r = self.common(op)
        if r is not None:
            return r
        if isinstance(op, scf.IfOp):
            if op.results:
                raise Unsupported("scf.if with results before tracing")
            c = self.use(op.cond)
            t = self.block(op.true_region.block) if op.true_region.blocks else []
            e = self.block(op.false_region.block) if op.false_region.blocks else []
            return ["if", c, t, e]
        if isinstance(op, scf.ForOp):
            if op.results:
                raise Unsupported("scf.for with iter_args before tracing")
            lb, ub, st = self.use(op.lb), self.use(op.ub), self.use(op.step)
            iv = self.var(op.body.block.args[0])
            return ["for", lb, ub, st, iv, self.block(op.body.block)]
        if isinstance(op, (scf.YieldOp, func.ReturnOp)):
            return None
        raise Unsupported(op.name)


class ConvL(_Base):
    """the program AFTER state tracing, with canonical state ids; `self.states` = the state SSA values in id order"""

    def __init__(self, f):
        self.sid = {}
        self.states = []
        super().__init__(f)

    def new(self, v):
        self.sid[v] = len(self.states)
        self.states.append(v)
        return self.sid[v]

    def ref(self, v):
        if v not in self.sid:
            raise Unsupported("state used before its definition in walk order")
        return self.sid[v]

    def _straight_cur(self, op):
        """the launch's state is the result of a setup of its accelerator that precedes it in the same block with only
        awaits / launches / pure ops / annotated calls / setups of OTHER accelerators in between (computed on the real IR,
        independently of the model's bookkeeping)"""
        accfg = self.accfg
        from snaxc.inference.helpers import has_accfg_effects
        sv = op.state
        o = op.prev_op
        while o is not None:
            if isinstance(o, accfg.SetupOp):
                if o.out_state is sv:
                    return True
                if o.accelerator.data == op.accelerator.data:
                    return False
            elif isinstance(o, (scf.IfOp, scf.ForOp)) or has_accfg_effects(o):
                return False
            o = o.prev_op
        return False

    def op(self, op):
        accfg = self.accfg
        if isinstance(op, accfg.SetupOp):
            a = op.accelerator.data
            inp = self.ref(op.in_state) if op.in_state is not None else None
            fs = [[self.field(a, n), self.use(v)] for n, v in op.iter_params()]
            self.points.append(("setup", op))
            return ["setup", self.acc(a), fs, self.new(op.out_state), inp]
        if isinstance(op, accfg.LaunchOp):
            self.points.append(("launch", op))
            st = self.sid.get(op.state)
            return ["launch", self.acc(op.accelerator.data), [self.use(v) for v in op.values], st,
                    st is not None and self._straight_cur(op)]
        r = self.common(op)
        if r is not None:
            return r
        if isinstance(op, scf.IfOp):
            if any(not self.is_statev(r) for r in op.results):
                raise Unsupported("scf.if with data results")
            c = self.use(op.cond)
            t = self.block(op.true_region.block) if op.true_region.blocks else []
            e = self.block(op.false_region.block) if op.false_region.blocks else []
            res = []
            # the order of the scf.if results follows Python dict order in the real pass; it carries no meaning: the
            # canonical form lists (and numbers) them by accelerator
            for i, r in sorted(enumerate(op.results), key=lambda ir: (self.acc(ir[1].type.accelerator.data), ir[0])):
                ty = op.true_region.block.last_op.operands[i]
                ey = op.false_region.block.last_op.operands[i]
                res.append([self.acc(r.type.accelerator.data), self.new(r), self.ref(ty), self.ref(ey)])
            return ["if", c, t, e, res]
        if isinstance(op, scf.ForOp):
            if any(not self.is_statev(r) for r in op.results):
                raise Unsupported("scf.for with data iter_args")
            lb, ub, st = self.use(op.lb), self.use(op.ub), self.use(op.step)
            iv = self.var(op.body.block.args[0])
            inits = [self.ref(v) for v in op.iter_args]
            args = [self.new(a) for a in op.body.block.args[1:]]
            if len(args) != len(inits) or len(args) != len(op.results):
                raise Unsupported("scf.for with inconsistent iter_args / block arguments / results")
            body = self.block(op.body.block)
            ylds = [self.ref(v) for v in op.body.block.last_op.operands]
            car = []
            for i, r in enumerate(op.results):
                car.append([self.acc(r.type.accelerator.data), args[i], inits[i], ylds[i], self.new(r)])
            return ["for", lb, ub, st, iv, body, car]
        if isinstance(op, (scf.YieldOp, func.ReturnOp)):
            return None
        raise Unsupported(op.name)

    def real_inference(self):
        """real `infer_state_of` of EVERY state value of the traced program, in canonical id order"""
        from snaxc.inference.trace_acc_state import infer_state_of
        out = []
        for i, v in enumerate(self.states):
            out.append([i, self.state_json(v.type.accelerator.data, infer_state_of(v))])
        return out


def canon_states(lst):
    """model side: [[id, [[f, x]…] | "no-state"]…] with the dictionaries sorted like Conv.state_json"""
    return [[i, sorted(s) if isinstance(s, list) else s] for i, s in lst]


def strip_cur(body):
    """the traced program without the derived `cur` flag of launches (for messages)"""
    out = []
    for s in body:
        if s[0] == "launch":
            out.append(s[:4])
        elif s[0] == "if":
            out.append([s[0], s[1], strip_cur(s[2]), strip_cur(s[3]), s[4]])
        elif s[0] == "for":
            out.append(s[:5] + [strip_cur(s[5]), s[6]])
        else:
            out.append(s)
    return out
