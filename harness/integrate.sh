#!/bin/bash
# integrate.sh <branch> <PROP> [<fixfile> "<commit message>" <finding id>]...   (run from /verif)
set -e
br=$1; shift; P=$1; shift
cd /verif
git add -A; git commit -qm "wip before integrating $br" 2>/dev/null || true
if ! git merge --no-edit -q $br >/tmp/merge.out 2>&1; then
  if ! git diff --name-only --diff-filter=U | grep -q .; then echo "MERGE FAILED:"; cat /tmp/merge.out; exit 1; fi
fi
for f in $(git diff --name-only --diff-filter=U); do
  case $f in seeded/*|evidence/*|known_findings.json|MANIFEST.json) git checkout --theirs -- $f; git add $f;; esac
done
if git diff --name-only --diff-filter=U | grep -q .; then echo "CONFLICTS:"; git diff --name-only --diff-filter=U; exit 1; fi
/venv/bin/python harness/genindex.py --findings
git add -A
if grep -rlE "^(<<<<<<<|>>>>>>>) " harness known_findings.d seeded lean/SnaxVerif DESIGN.md 2>/dev/null | grep -q .; then echo "CONFLICTS:"; git diff --name-only --diff-filter=U; exit 1; fi
git commit -q --no-edit 2>/dev/null || true
while [ $# -ge 3 ]; do
  fix=$1; msg=$2; fid=$3; shift 3
  ( cd /repo && git apply /verif/fixes/$fix && /venv/bin/python -m pytest -q -p no:cacheprovider --timeout=900 --continue-on-collection-errors 2>&1 | tail -1 && git commit -qam "$msg" )
  c=$(git -C /repo rev-parse --short HEAD)
  python3 - <<PY
import json
f='/verif/known_findings.d/$P.json'
k=json.load(open(f))
for e in k['findings']:
    if e.get('commit')=='PENDING' and e['id'] in '$fid'.split(','):
        e['commit']='$c'; e['line']=f"fixed: property={e['property']} $c {e['what']}"
json.dump(k,open(f,'w'),indent=1)
PY
  echo "applied $fix as $c"
done
/venv/bin/python harness/genindex.py --findings
/venv/bin/python harness/gen_manifest.py | tail -1
/venv/bin/python harness/setup.py | tail -2
/venv/bin/python harness/check.py $P 2>&1 | grep -v "^DISAGREEMENT" | cut -c1-220 | head -8
git worktree remove --force /work/$br 2>/dev/null || true
git branch -D -q $br 2>/dev/null || true
git add -A; git commit -qm "integrate $P ($br)" || true
