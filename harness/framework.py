"""Generic check runner (DESIGN.md §1.3).

One check run = build + axiom audit + corpus + correspondence (model vs real code) + property oracle on
the real code + replay of known findings + evidence. Exit codes: 0 held, 1 violation, 2 infrastructure.
"""
from __future__ import annotations

import hashlib
import json
import multiprocessing
import os
import random
import sys
import time
import traceback

import leandrv

VERIF = leandrv.VERIF
EVIDENCE_DIR = os.environ.get("VERIF_EVIDENCE_DIR") or os.path.join(VERIF, "evidence")
REPLAY_DIR = os.path.join(VERIF, "replays")
CORPUS_DIR = os.path.join(VERIF, "corpus")

TRUSTED_BASE_COMMON = [
    "Lean 4.33.0 kernel (lake build); axioms allowed in obligations: propext, Classical.choice, Quot.sound",
    "hand-written Lean model, tied to /repo by the correspondence check of this run (differential, generator-bounded)",
    "harness/compat.py (xDSL irdl_options shim, minimalloc stub), harness JSON converters, Lean JSON driver",
    "xDSL and numpy are exercised, not modelled",
]


def canon_json(x):
    return json.dumps(x, sort_keys=True, separators=(",", ":"))


class Prop:
    """Base class of a property check; subclasses live in harness/props/cXX.py."""

    id = "C00"
    module = None  # Lean module holding the obligations (default SnaxVerif.Props.<id>)
    PARALLEL = False
    trusted_base: list[str] = []
    assumptions: list[str] = []
    rule = "cases are distinct by canonical JSON; non-trivial by the property's own predicate"

    # -- generators -------------------------------------------------------------------------
    def cases(self, rng: random.Random, tier: str):
        raise NotImplementedError

    def extra_coverage(self) -> dict:
        """property-specific measured numbers added to coverage.extra of the evidence"""
        return {}

    def mutants(self, case, rng: random.Random):
        """Random small variations of a case on which model and implementation disagree (failing-input search); may be infinite."""
        return iter(())

    def extra_search_cases(self, rng: random.Random, tier: str):
        """Larger stream used only when searching for a failing input."""
        return self.cases(rng, "thorough")

    # -- the two sides ----------------------------------------------------------------------
    def impl(self, case):
        raise NotImplementedError

    def requests(self, case) -> list[dict]:
        return []

    def model(self, case, answers):
        raise NotImplementedError

    def compare(self, case, impl_out, model_out):
        """None if equal, else a short description."""
        if canon_json(impl_out) == canon_json(model_out):
            return None
        return "impl and model outputs differ"

    # -- property on the implementation ---------------------------------------------------
    def oracle(self, case, impl_out) -> list[dict]:
        return []

    def nontrivial(self, case, impl_out) -> bool:
        return True

    def stats_key(self, case, impl_out) -> str:
        k = case.get("kind", "case") if isinstance(case, dict) else "case"
        if isinstance(impl_out, dict) and "raised" in impl_out:
            return f"{k}:raised:{impl_out['raised']}"
        return k

    def shrink(self, case):
        return []


class CaseTimeout(BaseException):
    pass


def _alarm(signum, frame):
    raise CaseTimeout("case exceeded its time limit")


class _Limit:
    """Per-case limit on the CPU time of the process (SIGPROF; independent of the machine load, so that a slow machine cannot turn
    a finishing case into a "hang"), re-armed every 2 s in case the exception is swallowed; plus a wall-clock backstop of 30x the
    limit against waits that use no CPU."""

    def __init__(self, prop):
        self.limit = float(getattr(prop, "CASE_TIMEOUT", 30))

    def __enter__(self):
        import signal
        try:
            signal.signal(signal.SIGPROF, _alarm)
            signal.setitimer(signal.ITIMER_PROF, self.limit, 2.0)
            signal.signal(signal.SIGALRM, _alarm)
            signal.setitimer(signal.ITIMER_REAL, 30.0 * self.limit, 2.0)
        except ValueError:
            pass

    def __exit__(self, *a):
        import signal
        try:
            signal.setitimer(signal.ITIMER_PROF, 0)
            signal.setitimer(signal.ITIMER_REAL, 0)
        except ValueError:
            pass
        return False


def _safe_impl(prop: Prop, case):
    try:
        with _Limit(prop):
            return prop.impl(case)
    except (ImportError, SyntaxError, MemoryError):
        raise
    except CaseTimeout:
        return {"raised": "CaseTimeout", "msg": "the real code did not finish within the per-case time limit"}
    except BaseException as e:  # the real code raised: that is an observable outcome
        return {"raised": type(e).__name__, "msg": str(e)[:300]}


def _safe_oracle(prop: Prop, case, impl_out):
    try:
        with _Limit(prop):
            return prop.oracle(case, impl_out) or []
    except (ImportError, SyntaxError, MemoryError):
        raise
    except CaseTimeout:
        return [{"what": "the property oracle (which runs the real code) exceeded the per-case time limit", "finding": None}]
    except BaseException as e:
        return [{"what": f"oracle raised {type(e).__name__}: {str(e)[:300]}", "finding": None,
                 "trace": traceback.format_exc()[-1500:]}]


_POOL_PROP = None


def _pool_run(case):
    prop = _POOL_PROP
    out = _safe_impl(prop, case)
    return out, _safe_oracle(prop, case, out), bool(prop.nontrivial(case, out)), prop.stats_key(case, out)


def run_impl_side(prop: Prop, cases: list):
    global _POOL_PROP
    if prop.PARALLEL and len(cases) >= 32:
        _POOL_PROP = prop
        n = min(16, os.cpu_count() or 4)
        ctx = multiprocessing.get_context("fork")
        with ctx.Pool(n) as pool:
            return pool.map(_pool_run, cases, chunksize=max(1, len(cases) // (n * 8)))
    _POOL_PROP = prop
    return [_pool_run(c) for c in cases]


def retry_timeouts(prop: Prop, cases: list, impl_side: list):
    """A per-case time-out under load is not evidence of anything: re-run such cases alone, one at a time, with a ten
    times longer limit. Only a case that still does not finish is kept as a (reproducible) hang."""
    idx = [i for i, (io, orc, _, _) in enumerate(impl_side)
           if (isinstance(io, dict) and io.get("raised") == "CaseTimeout") or any("time limit" in str(v.get("what", "")) for v in orc)]
    if not idx:
        return impl_side, 0
    old = getattr(prop, "CASE_TIMEOUT", 30)
    prop.CASE_TIMEOUT = max(120.0, 4.0 * float(old))
    out = list(impl_side)
    hangs = 0
    try:
        for i in idx[:200]:
            out[i] = _pool_run(cases[i])
            io, orc = out[i][0], out[i][1]
            if (isinstance(io, dict) and io.get("raised") == "CaseTimeout") or any("time limit" in str(v.get("what", "")) for v in orc):
                hangs += 1
                if hangs >= 2:
                    break  # limits count CPU time: two cases that do not finish alone in 10x the limit are a reproducible hang
    finally:
        prop.CASE_TIMEOUT = old
    return out, len(idx)


def run_model_side(prop: Prop, cases: list, impl_side=None):
    """Model side. For translation-validation style checks (prop.USES_IMPL) the requests are built from
    the converted real IR contained in the implementation's output."""
    reqs = []
    spans = []
    uses = bool(getattr(prop, "USES_IMPL", False))
    if uses and impl_side is None:
        impl_side = run_impl_side(prop, cases)
    for i, c in enumerate(cases):
        try:
            r = prop.requests(c, impl_side[i][0]) if uses else prop.requests(c)
        except BaseException as e:
            r = []
        spans.append((len(reqs), len(reqs) + len(r)))
        reqs.extend(r)
    answers = leandrv.run_batch(reqs)
    outs = []
    for i, (c, (a, b)) in enumerate(zip(cases, spans)):
        try:
            outs.append(prop.model(c, answers[a:b], impl_side[i][0]) if uses else prop.model(c, answers[a:b]))
        except BaseException as e:
            outs.append({"model_error": f"{type(e).__name__}: {str(e)[:300]}"})
    return outs


def load_findings(prop_id: str):
    p = os.path.join(VERIF, "known_findings.json")
    if not os.path.exists(p):
        return [], []
    data = json.load(open(p))
    ents = [e for e in data.get("findings", []) if e.get("property") == prop_id]
    return [e for e in ents if e.get("status") == "open"], [e for e in ents if e.get("status") == "fixed"]


def load_obligations(prop_id: str):
    p = os.path.join(VERIF, "obligations", f"{prop_id}.json")
    if not os.path.exists(p):
        return {"theorems": [], "notes": ""}
    return json.load(open(p))


def load_corpus(prop_id: str):
    d = os.path.join(CORPUS_DIR, prop_id)
    out = []
    if os.path.isdir(d):
        for f in sorted(os.listdir(d)):
            if f.endswith(".json"):
                out.append(json.load(open(os.path.join(d, f))))
    return out


def write_replay(prop_id, kind, case, extra):
    os.makedirs(REPLAY_DIR, exist_ok=True)
    h = hashlib.sha1(canon_json([kind, case, extra.get("theorem_or_correspondence")]).encode()).hexdigest()[:12]
    path = os.path.join(REPLAY_DIR, f"{prop_id}-{h}.json")
    rec = {"property": prop_id, "kind": kind, "case": case,
           "how_to_rerun": f"/venv/bin/python harness/check.py {prop_id} --replay replays/{prop_id}-{h}.json"}
    rec.update(extra)
    with open(path, "w") as f:
        json.dump(rec, f, indent=1, sort_keys=True, default=str)
    return os.path.relpath(path, VERIF)


def shrink_case(prop: Prop, case, still_fails, budget=200, seconds=20.0):
    """Greedy shrinking: accept the first candidate that still fails, repeat (bounded in steps and time)."""
    cur = case
    steps = 0
    progress = True
    t_end = time.time() + seconds
    while progress and steps < budget and time.time() < t_end:
        progress = False
        for cand in prop.shrink(cur):
            steps += 1
            if steps >= budget or time.time() > t_end:
                break
            try:
                if still_fails(cand):
                    cur = cand
                    progress = True
                    break
            except BaseException:
                continue
    return cur


def run_check(prop: Prop, tier: str, seed: int, replay: str | None = None) -> int:
    t0 = time.time()
    pid = prop.id
    lines = []

    def say(s):
        print(s, flush=True)
        lines.append(s)

    obligations = load_obligations(pid)
    theorems = obligations["theorems"]
    open_findings, fixed_findings = load_findings(pid)
    violations = []  # (kind, replay_path)
    proof_problems = []

    # 1. build ----------------------------------------------------------------------------
    try:
        ok, log, bsec = leandrv.build()
    except leandrv.InfraError as e:
        say(f"INFRA: {e}")
        return 2
    if not ok:
        proof_problems.append("lake build failed: " + log[-1500:])
    # 2. audit ----------------------------------------------------------------------------
    audit_res = {}
    if ok:
        try:
            audit_res, audit_out = leandrv.audit(pid, theorems, prop.module)
        except Exception as e:
            say(f"INFRA: audit failed: {e}")
            return 2
        for t, r in audit_res.items():
            if not r["found"]:
                proof_problems.append(f"obligation {t} not found in the built environment")
            elif not r["ok"]:
                proof_problems.append(f"obligation {t} depends on inadmissible axioms {r['axioms']}")
        for f, ln, tok in leandrv.grep_forbidden():
            proof_problems.append(f"forbidden construct '{tok}' at {f}:{ln}")
    recheck_info = None
    if ok and tier == "thorough":
        rok, rmods, rout = leandrv.recheck(prop.module or f"SnaxVerif.Props.{pid}")
        recheck_info = {"ok": rok, "modules": rmods}
        if rok is False:
            proof_problems.append("leanchecker rejected the compiled modules: " + rout)
    discharged = sum(1 for r in audit_res.values() if r["found"] and r["ok"]) if not any(
        p.startswith("forbidden") or p.startswith("lake build") for p in proof_problems) else 0

    # replay mode ---------------------------------------------------------------------------
    if replay:
        rec = json.load(open(replay if os.path.isabs(replay) else os.path.join(VERIF, replay)))
        case = rec["case"]
        if case is None:
            say(f"replay has no input: {rec.get('theorem_or_correspondence')}")
            return 1 if proof_problems else 0
        (iout, orc, _, _), = run_impl_side(prop, [case])
        mout, = run_model_side(prop, [case])
        diff = prop.compare(case, iout, mout)
        say(json.dumps({"impl": iout, "model": mout, "diff": diff, "oracle": orc}, indent=1, default=str)[:6000])
        bad = [v for v in orc if v.get("finding") not in {f["id"] for f in open_findings}]
        if bad or diff:
            say(f"VIOLATION property={pid} replay={replay}" + ("" if bad else " no-failing-input-found"))
            return 1
        return 0

    # 3/4. corpus + generated cases --------------------------------------------------------
    rng = random.Random(seed)
    corpus = load_corpus(pid) + [f["witness"] for f in fixed_findings if f.get("witness") is not None]
    gen = list(prop.cases(rng, tier))
    cases = corpus + gen
    try:
        impl_side = run_impl_side(prop, cases)
        impl_side, n_retried = retry_timeouts(prop, cases, impl_side)
        model_side = run_model_side(prop, cases, impl_side) if ok else [None] * len(cases)
    except leandrv.InfraError as e:
        say(f"INFRA: {e}")
        return 2
    except (ImportError, SyntaxError) as e:
        say(f"INFRA: cannot import the code under test: {e}")
        return 2

    open_ids = {f["id"] for f in open_findings}
    disagreements = []
    impl_violations = []
    known_hits = {}
    distinct = set()
    dist = {}
    nontrivial_keys = set()
    for idx, (c, (iout, orc, nt, sk), mout) in enumerate(zip(cases, impl_side, model_side)):
        k = canon_json(c)
        distinct.add(k)
        dist[sk] = dist.get(sk, 0) + 1
        if nt:
            nontrivial_keys.add(k)
        diff = prop.compare(c, iout, mout) if ok else None
        if diff:
            disagreements.append((idx, c, iout, mout, diff))
        for v in orc:
            fid = v.get("finding")
            if fid in open_ids and not diff:
                known_hits[fid] = known_hits.get(fid, 0) + 1
            else:
                impl_violations.append((idx, c, iout, v))

    # 5. known findings: replay each witness ---------------------------------------------
    finding_lines = []
    for f in open_findings:
        w = f.get("witness")
        if w is None:
            finding_lines.append(f"KNOWN-FINDING: property={pid} {f['id']} {f['what']}")
            continue
        (iout, orc, _, _), = run_impl_side(prop, [w])
        if any(v.get("finding") == f["id"] for v in orc):
            finding_lines.append(f"KNOWN-FINDING: property={pid} {f['id']} {f['what']}")
            mout, = run_model_side(prop, [w]) if ok else (None,)
            d = prop.compare(w, iout, mout) if ok else None
            if d:
                disagreements.append((-1, w, iout, mout, f"finding witness {f['id']}: {d}"))
            for v in orc:
                if v.get("finding") != f["id"] and v.get("finding") not in open_ids:
                    impl_violations.append((-1, w, iout, v))
        else:
            disagreements.append((-1, w, iout, None,
                                  f"known finding {f['id']} no longer reproduces on its witness (code changed under the model)"))

    # decide -----------------------------------------------------------------------------
    def model_fails(cand):
        (io, _, _, _), = run_impl_side(prop, [cand])
        mo, = run_model_side(prop, [cand])
        return prop.compare(cand, io, mo) is not None

    def oracle_fails(cand):
        (io, orc, _, _), = run_impl_side(prop, [cand])
        return any(v.get("finding") not in open_ids for v in orc)

    reported = set()
    for idx, c, iout, v in impl_violations[:50]:
        key = v.get("what", "")[:80]
        if key in reported:
            continue
        reported.add(key)
        small = shrink_case(prop, c, oracle_fails) if idx >= 0 else c
        (io2, orc2, _, _), = run_impl_side(prop, [small])
        path = write_replay(pid, "impl-violation", small, {
            "seed": seed, "tier": tier, "case_index": idx, "observed": io2,
            "violation": [x for x in orc2 if x.get("finding") not in open_ids] or [v], "original_case": c if small != c else None})
        violations.append(("impl-violation", path))
        if len(violations) >= 3:
            break

    if not violations and (disagreements or proof_problems):
        # a broken proof or correspondence is not by itself a violation: search for a failing input
        found = None
        cand_cases = [c for (_, c, _, _, _) in disagreements]
        budget_s = 60 if tier == "quick" else 900
        ts = time.time()
        srng = random.Random(seed + 7919)
        # (a) local search: small variations of the (shrunk) inputs on which model and code disagree
        import itertools
        mseeds = []
        for c in cand_cases[:3]:
            try:
                mseeds.append(shrink_case(prop, c, model_fails, seconds=10) if ok else c)
            except BaseException:
                mseeds.append(c)
        mseeds += cand_cases[:3]
        mstreams = [prop.mutants(c, srng) for c in mseeds]
        n_mut = 0
        ts = time.time()
        while found is None and mstreams and time.time() - ts < budget_s / 2:
            batch = [m for st_ in mstreams for m in itertools.islice(st_, 16)]
            if not batch:
                break
            n_mut += len(batch)
            for c, (io, orc, _, _) in zip(batch, run_impl_side(prop, batch)):
                bad = [v for v in orc if v.get("finding") not in open_ids and "time limit" not in str(v.get("what", ""))
                       and "CaseTimeout" not in str(v.get("what", ""))]
                if bad:
                    found = (c, io, bad)
                    break
        # (b) the generator stream
        stream = iter(prop.extra_search_cases(srng, tier))
        ts = time.time()
        while found is None and time.time() - ts < budget_s:
            batch = []
            for c in stream:
                batch.append(c)
                if len(batch) >= 200:
                    break
            if not batch:
                break
            for c, (io, orc, _, _) in zip(batch, run_impl_side(prop, batch)):
                bad = [v for v in orc if v.get("finding") not in open_ids and "time limit" not in str(v.get("what", ""))
                       and "CaseTimeout" not in str(v.get("what", ""))]
                if bad:
                    found = (c, io, bad)
                    break
        if found:
            c, io, bad = found
            small = shrink_case(prop, c, oracle_fails)
            (io2, orc2, _, _), = run_impl_side(prop, [small])
            path = write_replay(pid, "impl-violation", small, {
                "seed": seed, "tier": tier, "observed": io2, "violation": orc2 or bad,
                "note": "found by the failing-input search after a proof/correspondence break",
                "broken": [d[4] for d in disagreements][:5] + proof_problems[:5]})
            violations.append(("impl-violation", path))
        else:
            if disagreements:
                idx, c, iout, mout, diff = disagreements[0]
                small = shrink_case(prop, c, model_fails) if idx >= 0 and ok else c
                if small != c:
                    (iout, _, _, _), = run_impl_side(prop, [small])
                    mout, = run_model_side(prop, [small])
                path = write_replay(pid, "no-failing-input-found", small, {
                    "seed": seed, "tier": tier, "case_index": idx,
                    "theorem_or_correspondence": f"correspondence {pid}: {diff}",
                    "impl_output": iout, "model_output": mout, "n_disagreements": len(disagreements),
                    "original_case": c if small != c else None})
            else:
                path = write_replay(pid, "no-failing-input-found", None, {
                    "seed": seed, "tier": tier, "theorem_or_correspondence": "; ".join(proof_problems)[:3000]})
            violations.append(("no-failing-input-found", path))

    # 6. evidence ------------------------------------------------------------------------
    wall = time.time() - t0
    samples = []
    for c, (iout, _, nt, _) in list(zip(cases, impl_side)):
        if nt:
            samples.append({"case": c, "impl": iout})
        if len(samples) >= 3:
            break
    if not samples and cases:
        samples.append({"case": cases[0], "impl": impl_side[0][0]})
    ev = {
        "property_id": pid, "tier": tier, "seed": seed, "level": "proof",
        "coverage": {
            "obligations": len(theorems), "discharged": discharged,
            "checker_cmd": "cd lean && lake build && lake env lean <generated #print axioms file> (harness/leandrv.py audit)",
            "trusted_base": TRUSTED_BASE_COMMON + list(prop.trusted_base),
            "theorems": {t: audit_res.get(t, {}) for t in theorems},
            "proof_problems": proof_problems, "leanchecker": recheck_info,
            "evaluations": len(cases), "distinct_nontrivial": len(nontrivial_keys), "distinct": len(distinct),
            "rule": prop.rule, "samples": json.loads(json.dumps(samples, default=str))[:3],
            "traces_validated_against_impl": len(cases) if ok else 0,
            "correspondence_disagreements": len(disagreements),
            "impl_oracle_violations_unlisted": len(impl_violations),
            "known_finding_hits_in_stream": known_hits,
            "corpus_cases": len(corpus), "cases_retried_after_timeout": n_retried, "input_distribution": dict(sorted(dist.items())),
            "build_seconds": round(bsec, 1), "exhaustive": bool(getattr(prop, "exhaustive_" + tier, False)),
            "obligation_notes": obligations.get("notes", ""), "extra": prop.extra_coverage(),
        },
        "assumptions": list(prop.assumptions),
        "wall_s": round(wall, 2), "violations": len(violations),
    }
    os.makedirs(EVIDENCE_DIR, exist_ok=True)
    with open(os.path.join(EVIDENCE_DIR, f"{pid}.json"), "w") as f:
        json.dump(ev, f, indent=1, sort_keys=True, default=str)

    say(f"[{pid}] tier={tier} seed={seed} obligations={len(theorems)} discharged={discharged} cases={len(cases)} "
        f"nontrivial={len(nontrivial_keys)} disagreements={len(disagreements)} impl_violations={len(impl_violations)} "
        f"known_hits={known_hits} wall={wall:.1f}s")
    for p in proof_problems:
        say(f"PROOF-PROBLEM: {p[:500]}")
    for d in disagreements[:5]:
        say(f"DISAGREEMENT: case#{d[0]} {d[4]}: impl={canon_json(d[2])[:300]} model={canon_json(d[3])[:300]}")
    if not violations:
        for l in finding_lines:
            say(l)
        return 0
    for l in finding_lines:
        say(l)
    for kind, path in violations:
        say(f"VIOLATION property={pid} replay={path}" + (" no-failing-input-found" if kind == "no-failing-input-found" else ""))
    return 1
