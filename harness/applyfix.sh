#!/bin/bash
# applyfix.sh <fix diff in /verif/fixes> <PROP> <finding id> "<commit message>"
set -e
fix=$1; P=$2; fid=$3; msg=$4
cd /repo
git apply --check /verif/fixes/$fix
git apply /verif/fixes/$fix
res=$(/venv/bin/python -m pytest -q -p no:cacheprovider --timeout=900 --continue-on-collection-errors tests 2>&1 | tail -1)
echo "$res"
echo "$res" | grep -q "68 passed" || { echo "TESTS NOT 68 PASSED - reverting"; git checkout -- .; exit 1; }
git commit -qam "$msg"
c=$(git rev-parse --short HEAD)
python3 - <<PY
import json
f='/verif/known_findings.d/$P.json'
k=json.load(open(f))
for e in k['findings']:
    if e['id']=='$fid':
        e['status']='fixed'; e['commit']='$c'; e['fix']='fixes/$fix'
        e['line']=f"fixed: property={e['property']} $c {e['what']}"
json.dump(k,open(f,'w'),indent=1)
PY
echo "applied $fix as $c"
