"builtin.module"() ({
  "phs.pe"() <{sym_name = "acc1", function_type = (i64, i64, i64, index) -> i64, switch_no = 1 : i64}> ({
  ^bb0(%in: i64, %in_1: i64, %out: i64, %0: index):
    %1 = "phs.choose"(%in, %in_1, %0) <{sym_name = "i_i64_i64_o_i64_0"}> ({
    ^bb0(%2: i64, %3: i64):
      %4 = "arith.addi"(%2, %3) <{overflowFlags = #arith.overflow<none>}> : (i64, i64) -> i64
      "phs.yield"(%4) : (i64) -> ()
    }) : (i64, i64, index) -> i64
    "phs.yield"(%1) : (i64) -> ()
  }) : () -> ()
}) : () -> ()